"""Parser for TLA+ values as TLC prints them (states in -simulate files, dot
labels, PrintT lines, error traces).

Mapping: integers -> int, strings -> str, TRUE/FALSE -> bool, <<..>> -> tuple,
{..} -> frozenset, [k |-> v, ..] -> dict (Rec), (k :> v @@ ..) -> dict,
a..b -> frozenset(range), model values / identifiers -> ModelValue(str).
"""
from __future__ import annotations


class ModelValue(str):
    def __repr__(self):
        return "MV(" + str.__repr__(self) + ")"


class Rec(dict):
    """hashable dict (records and functions); hash by frozen item set."""

    def __hash__(self):  # type: ignore[override]
        return hash(frozenset(self.items()))

    def __getattr__(self, k):
        try:
            return self[k]
        except KeyError:
            raise AttributeError(k)


class ParseError(Exception):
    pass


class _P:
    def __init__(self, s: str):
        self.s = s
        self.i = 0

    def ws(self):
        s = self.s
        n = len(s)
        while self.i < n and s[self.i] in " \t\r\n":
            self.i += 1

    def peek(self, k=1):
        return self.s[self.i:self.i + k]

    def expect(self, tok):
        self.ws()
        if not self.s.startswith(tok, self.i):
            raise ParseError(f"expected {tok!r} at {self.i}: {self.s[self.i:self.i+40]!r}")
        self.i += len(tok)

    def value(self):
        self.ws()
        s = self.s
        c = self.peek()
        if c == "":
            raise ParseError("unexpected end")
        if s.startswith("<<", self.i):
            self.i += 2
            items = self.items(">>")
            return tuple(items)
        if c == "{":
            self.i += 1
            items = self.items("}")
            return frozenset(items)
        if c == "[":
            self.i += 1
            self.ws()
            d = Rec()
            if self.peek() == "]":
                self.i += 1
                return d
            while True:
                self.ws()
                k = self.ident()
                self.expect("|->")
                d[k] = self.value()
                self.ws()
                if self.peek() == ",":
                    self.i += 1
                    continue
                self.expect("]")
                return d
        if c == "(":
            self.i += 1
            d = Rec()
            while True:
                k = self.value()
                self.expect(":>")
                d[k] = self.value()
                self.ws()
                if s.startswith("@@", self.i):
                    self.i += 2
                    continue
                self.expect(")")
                return d
        if c == '"':
            return self.string()
        if c.isdigit() or c == "-":
            j = self.i + 1
            while j < len(s) and s[j].isdigit():
                j += 1
            v = int(s[self.i:j])
            self.i = j
            self.ws()
            if s.startswith("..", self.i):
                self.i += 2
                hi = self.value()
                return frozenset(range(v, hi + 1))
            return v
        idt = self.ident()
        if idt == "TRUE":
            return True
        if idt == "FALSE":
            return False
        return ModelValue(idt)

    def ident(self):
        self.ws()
        s = self.s
        j = self.i
        while j < len(s) and (s[j].isalnum() or s[j] == "_"):
            j += 1
        if j == self.i:
            raise ParseError(f"identifier expected at {self.i}: {s[self.i:self.i+40]!r}")
        r = s[self.i:j]
        self.i = j
        return r

    def string(self):
        s = self.s
        assert s[self.i] == '"'
        j = self.i + 1
        out = []
        while s[j] != '"':
            if s[j] == "\\":
                j += 1
                out.append({"n": "\n", "t": "\t"}.get(s[j], s[j]))
            else:
                out.append(s[j])
            j += 1
        self.i = j + 1
        return "".join(out)

    def items(self, close):
        out = []
        self.ws()
        if self.s.startswith(close, self.i):
            self.i += len(close)
            return out
        while True:
            out.append(self.value())
            self.ws()
            if self.peek() == ",":
                self.i += 1
                continue
            self.expect(close)
            return out


def parse_value(s: str):
    p = _P(s)
    v = p.value()
    p.ws()
    if p.i != len(p.s):
        raise ParseError(f"trailing text at {p.i}: {p.s[p.i:p.i+40]!r}")
    return v


def parse_state(text: str) -> Rec:
    """Parse '/\\ v1 = val\\n/\\ v2 = val ...' into a Rec of variable -> value."""
    p = _P(text)
    st = Rec()
    while True:
        p.ws()
        if p.i >= len(p.s):
            break
        if p.s.startswith("/\\", p.i):
            p.expect("/\\")
        name = p.ident()
        p.expect("=")
        st[name] = p.value()
    return st


def to_py(v):
    """Deep-convert to plain JSON-able python (tuples->lists, sets->sorted lists)."""
    if isinstance(v, dict):
        if all(isinstance(k, str) for k in v):
            return {str(k): to_py(x) for k, x in v.items()}
        return [[to_py(k), to_py(x)] for k, x in sorted(v.items(), key=lambda kv: repr(kv[0]))]
    if isinstance(v, (tuple, list)):
        return [to_py(x) for x in v]
    if isinstance(v, frozenset):
        return sorted((to_py(x) for x in v), key=repr)
    if isinstance(v, ModelValue):
        return str(v)
    return v


def fn_to_seq(v):
    """TLC prints a function with domain 1..n as a tuple; dict otherwise.  Normalise
    a dict with domain 1..n into a tuple."""
    if isinstance(v, dict) and v and all(isinstance(k, int) for k in v):
        n = len(v)
        if set(v) == set(range(1, n + 1)):
            return tuple(v[i] for i in range(1, n + 1))
    return v
