"""Replay of Stats.tla behaviours on the real statistics classes (C09, C10).

Spec values are small naturals; the harness feeds exact affine images a*x + b (a, b dyadic so that the
inputs are exact doubles) and compares each public getter with the specification's exact value pushed
through the affine law.  Float comparison lives here (the projection); what must be defined, what must be
NaN and every exact value come from TLC."""
from __future__ import annotations

import math
from fractions import Fraction
from statistics import NormalDist

from pydsol.core.pubsub import EventListener
from pydsol.core import statistics as st
from pydsol.core.interfaces import StatEvents

AFFINE = [(Fraction(1), Fraction(0)), (Fraction(1, 1024), Fraction(2 ** 20)), (Fraction(2 ** 20), Fraction(-(2 ** 40))),
          (Fraction(-5, 2), Fraction(1, 8)), (Fraction(2 ** 10), Fraction(2 ** 50))]
# after every initialize() the observations come from another image: nothing of an earlier epoch (a stale running
# mean of magnitude 2^50, say, against fractional values) may leak into the statistics of the next one
EPOCH_AFFINE = [(Fraction(-5, 2), Fraction(1, 8)), (Fraction(2 ** 10), Fraction(2 ** 50)), (Fraction(1), Fraction(0))]
REL = 1e-9
EPS = 2.0 ** -52


def val(rec):
    """spec value record -> Fraction | ('sqrt', Fraction, sign) | 'nan' | 'nan_or_zero'"""
    k = rec["k"]
    if k == "nan":
        return "nan"
    if k == "nan_or_zero":
        return "nan_or_zero"
    if k == "rat":
        return Fraction(rec["n"], rec["d"])
    if k == "sqrt":
        return ("sqrt", Fraction(rec["n"], rec["d"]), rec["s"])
    raise ValueError(k)


def to_float(v):
    if isinstance(v, tuple):
        return v[2] * math.sqrt(v[1])
    return float(v)


def transform(name, v, a, b, g):
    """push the exact specification value of getter `name` through x -> a*x + b"""
    if v in ("nan", "nan_or_zero"):
        return v
    n = Fraction(g["n"]["n"], g["n"]["d"])
    base = name[:-2] if name.endswith("_s") else name
    if base == "n":
        return v
    if base in ("mean", "weighted_mean"):
        return a * v + b
    if base in ("min", "max"):
        lo, hi = val(g["min"]), val(g["max"])
        pair = sorted([a * lo + b, a * hi + b])
        return pair[0] if base == "min" else pair[1]
    if base in ("sum", "count"):
        return a * v + n * b
    if base in ("variance", "weighted_variance", "ci_var_over_n"):
        return a * a * v
    if base in ("stdev", "weighted_stdev"):
        return ("sqrt", a * a * v[1], v[2])
    if base == "skewness":
        return ("sqrt", v[1], v[2] * (1 if a > 0 else -1))
    if base in ("kurtosis", "excess_kurtosis"):
        return v
    raise ValueError(name)


def close(got, want, scale=1.0, kappa=0.0):
    """|got - want| <= (1e-9 + 4000*eps*kappa) * |want| : kappa = |mean| / stdev of the image is the condition
    number of the one-pass moment computation (a backward-stable algorithm has relative error O(n*eps*kappa))"""
    if want == "nan":
        return isinstance(got, float) and math.isnan(got)
    if want == "nan_or_zero":
        return isinstance(got, (int, float)) and (math.isnan(got) or got == 0)
    w = to_float(want)
    if isinstance(got, bool) or not isinstance(got, (int, float)) or (isinstance(got, float) and math.isnan(got)):
        return False
    return abs(got - w) <= (REL + 4000 * EPS * kappa) * max(abs(w), scale * 1e-3, 1e-300)


def call(fn, *a):
    try:
        return fn(*a)
    except Exception as ex:
        return ex


class Collector(EventListener):
    def __init__(self):
        self.last = {}

    def notify(self, event):
        self.last[event.event_type] = event.content


TALLY_GETTERS = [("n", "n", ()), ("sum", "sum", ()), ("min", "min", ()), ("max", "max", ()), ("mean", "mean", ()),
                 ("variance", "variance", ()), ("variance_s", "variance", (False,)), ("stdev", "stdev", ()), ("stdev_s", "stdev", (False,)),
                 ("skewness", "skewness", ()), ("skewness_s", "skewness", (False,)), ("kurtosis", "kurtosis", ()),
                 ("kurtosis_s", "kurtosis", (False,)), ("excess_kurtosis", "excess_kurtosis", ()),
                 ("excess_kurtosis_s", "excess_kurtosis", (False,))]
W_GETTERS = [("n", "n", ()), ("min", "min", ()), ("max", "max", ()), ("weighted_sum", "weighted_sum", ()), ("weighted_mean", "weighted_mean", ()),
             ("weighted_variance", "weighted_variance", ()), ("weighted_variance_s", "weighted_variance", (False,)),
             ("weighted_stdev", "weighted_stdev", ()), ("weighted_stdev_s", "weighted_stdev", (False,))]
C_GETTERS = [("n", "n", ()), ("count", "count", ())]

TALLY_EVENTS = {"n": "N_EVENT", "min": "MIN_EVENT", "max": "MAX_EVENT", "sum": "SUM_EVENT", "mean": "MEAN_EVENT",
                "stdev": "POPULATION_STDEV_EVENT", "variance": "POPULATION_VARIANCE_EVENT", "skewness": "POPULATION_SKEWNESS_EVENT",
                "kurtosis": "POPULATION_KURTOSIS_EVENT", "excess_kurtosis": "POPULATION_EXCESS_K_EVENT",
                "stdev_s": "SAMPLE_STDEV_EVENT", "variance_s": "SAMPLE_VARIANCE_EVENT", "skewness_s": "SAMPLE_SKEWNESS_EVENT",
                "kurtosis_s": "SAMPLE_KURTOSIS_EVENT", "excess_kurtosis_s": "SAMPLE_EXCESS_K_EVENT"}


def same_float(x, y):
    if isinstance(x, float) and isinstance(y, float) and math.isnan(x) and math.isnan(y):
        return True
    return x == y


class StatReplay:
    """one real statistic object driven along a Stats.tla path"""

    def __init__(self, kind, variant, affine, tscale=1.0):
        self.kind, self.variant = kind, variant
        self.a, self.b = affine
        self.epoch = 0
        self.tscale = tscale           # timestamps / weights are scaled by a power of two (exact)
        cls = {("counter", "plain"): st.Counter, ("counter", "event"): st.EventBasedCounter, ("counter", "listened"): st.EventBasedCounter,
               ("tally", "plain"): st.Tally, ("tally", "event"): st.EventBasedTally, ("tally", "listened"): st.EventBasedTally,
               ("wtally", "plain"): st.WeightedTally, ("wtally", "event"): st.EventBasedWeightedTally, ("wtally", "listened"): st.EventBasedWeightedTally,
               ("ttally", "plain"): st.TimestampWeightedTally, ("ttally", "event"): st.EventBasedTimestampWeightedTally,
               ("ttally", "listened"): st.EventBasedTimestampWeightedTally}[(kind, variant)]
        self.obj = cls("s")
        self.col = None
        if variant == "listened":
            self.col = Collector()
            for nm in dir(StatEvents):
                et = getattr(StatEvents, nm)
                if nm.endswith("_EVENT") and not nm.endswith("DATA_EVENT"):
                    self.obj.add_listener(et, self.col)

    def feed(self):
        """every second accepted observation of an 'event' variant goes through notify()"""
        self.nfeed = getattr(self, "nfeed", 0) + 1
        return self.nfeed % 3 != 0

    def x(self, v):
        r = self.a * v + self.b
        f = float(r)
        assert Fraction(f) == r
        return int(f) if self.kind == "counter" else f

    def apply(self, op):
        """returns None or a violation tuple (key, detail)"""
        a = op["a"]
        o = self.obj
        if a == "Initialize":
            r = call(o.initialize)
            if self.kind != "counter" and not isinstance(r, Exception):
                self.a, self.b = EPOCH_AFFINE[self.epoch % len(EPOCH_AFFINE)]
                self.epoch += 1
        elif a in ("Register", "RegisterW", "RegisterT") and self.variant == "event" and self.feed():
            # the event-based statistic is a LISTENER: the observation arrives as the data event of a producer
            from pydsol.core.pubsub import Event, TimedEvent
            if a == "Register":
                ev = Event(StatEvents.DATA_EVENT, self.x(op["x"]))
            elif a == "RegisterW":
                ev = Event(StatEvents.WEIGHT_DATA_EVENT, (float(op["w"] * self.tscale), self.x(op["x"])))
            else:
                ev = TimedEvent(float(op["t"] * self.tscale), StatEvents.TIMESTAMP_DATA_EVENT, self.x(op["x"]))
            r = call(o.notify, ev)
        elif a == "Register":
            r = call(o.register, self.x(op["x"]))
        elif a == "RegisterW":
            r = call(o.register, float(op["w"] * self.tscale), self.x(op["x"]))
        elif a == "RegisterT":
            r = call(o.register, float(op["t"] * self.tscale), self.x(op["x"]))
        elif a == "EndObservations":
            r = call(o.end_observations, float(op["t"] * self.tscale))
        elif a == "Rejected":
            why = op["why"]
            args = {"float": (1.5,), "str": ("x",), "nan": (math.nan,)}.get(why)
            if self.kind == "wtally":
                args = {"nan_value": (1.0, math.nan), "nan_weight": (math.nan, 1.0), "negative_weight": (-1.0, 1.0), "str": (1.0, "x")}[why]
            if self.kind == "ttally":
                args = {"nan_value": (9.0e9, math.nan), "nan_time": (math.nan, 1.0), "str": ("x", 1.0)}[why]
            r = call(o.register, *args)
            if not isinstance(r, (TypeError, ValueError)):
                return (f"rejected|{why}", f"invalid observation {args} was not refused with TypeError/ValueError: {r!r}")
            return None
        else:
            raise ValueError(a)
        if op["res"] == "ok" and isinstance(r, Exception):
            return (f"raise|{a}|{type(r).__name__}", f"{a} raised {type(r).__name__}: {r}")
        if op["res"] == "error" and not isinstance(r, (TypeError, ValueError)):
            return (f"accepted|{a}", f"{a}{tuple(op.get(k) for k in ('t', 'x'))} should be refused, got {r!r}")
        return None

    def getters(self):
        return {"counter": C_GETTERS, "tally": TALLY_GETTERS}.get(self.kind, W_GETTERS)

    def compare(self, g, alphas=(0.05, 0.5, 1.0, 0.0)):
        """compare every public getter with the specification record g; returns list of (key, detail)"""
        out = []
        o = self.obj
        a, b = self.a, self.b
        spread = 1.0
        kappa = self.kappa(g)
        for name, meth, args in self.getters():
            got = call(getattr(o, meth), *args)
            if isinstance(got, Exception):
                out.append((f"getter_raises|{name}|{type(got).__name__}", f"{meth}{args} raised {type(got).__name__}: {got}"))
                continue
            if name == "weighted_sum":
                want = (a * val(g["weighted_sum"]) + b * val(g["wtotal"])) * Fraction(self.tscale)
            else:
                want = transform(name, val(g[name]), a, b, g)
            moment = name.split("_")[0] in ("variance", "stdev", "skewness", "kurtosis", "excess", "weighted") and "mean" not in name and "sum" not in name
            if not close(got, want, spread, kappa if moment else 0.0):
                out.append((f"getter|{name}", f"{meth}{args} = {got!r}, specification {describe(want)} (image x -> {a}*x + {b})"))
        if self.kind == "tally":
            n = g["n"]["n"]
            for alpha in alphas:
                got = call(o.confidence_interval, alpha)
                if isinstance(got, Exception):
                    out.append((f"getter_raises|confidence_interval|{type(got).__name__}", f"confidence_interval({alpha}) raised {type(got).__name__}: {got}"))
                    continue
                vn = val(g["ci_var_over_n"])
                if vn == "nan":
                    ok = isinstance(got, tuple) and len(got) == 2 and all(isinstance(x, float) and math.isnan(x) for x in got)
                    if not ok:
                        out.append(("getter|confidence_interval", f"confidence_interval({alpha}) = {got!r}, specification (nan, nan)"))
                    continue
                mean = float(transform("mean", val(g["mean"]), a, b, g))
                lo = float(transform("min", val(g["min"]), a, b, g))
                hi = float(transform("max", val(g["max"]), a, b, g))
                level = 1.0 - alpha / 2.0
                z = math.inf if level >= 1.0 else NormalDist().inv_cdf(level)
                half = z * math.sqrt(float(a * a * vn)) if float(vn) > 0 else 0.0
                want_lo, want_hi = max(lo, mean - half), min(hi, mean + half)
                k2 = self.kappa(g) if math.isfinite(half) else 0.0
                if not (isinstance(got, tuple) and len(got) == 2 and close(got[0], Fraction(want_lo), 1.0, k2) and close(got[1], Fraction(want_hi), 1.0, k2)):
                    out.append(("getter|confidence_interval", f"confidence_interval({alpha}) = {got!r}, specification ({want_lo!r}, {want_hi!r})"))
        return out

    def kappa(self, g):
        try:
            if "mean" in g and "stdev" in g:
                m, sd = val(g["mean"]), val(g["stdev"])
            else:
                m, sd = val(g["weighted_mean"]), val(g["weighted_stdev"])
            if not isinstance(m, Fraction) or not isinstance(sd, tuple) or sd[1] == 0:
                return 0.0
            return abs(float(self.a * m + self.b)) / (abs(float(self.a)) * math.sqrt(sd[1]))
        except Exception:
            return 0.0

    def _weighted_sum_image(self, g):
        return None if (self.a, self.b) != (Fraction(1), Fraction(0)) else Fraction(g["weighted_sum"]["n"], g["weighted_sum"]["d"]) * Fraction(self.tscale)

    def published(self):
        """payloads published at the last register equal the getters at that moment (listened variant)"""
        out = []
        if not self.col or self.kind != "tally":
            return out
        for name, meth, args in TALLY_GETTERS:
            et = getattr(StatEvents, TALLY_EVENTS[name], None)
            if et is None or et not in self.col.last:
                continue
            now = call(getattr(self.obj, meth), *args)
            if isinstance(now, Exception):
                continue
            if not same_float(self.col.last[et], now):
                out.append((f"published|{name}", f"published {TALLY_EVENTS[name]} = {self.col.last[et]!r} but {meth}{args} = {now!r}"))
        return out


def describe(w):
    if isinstance(w, tuple):
        return f"{w[2]}*sqrt({w[1]}) = {to_float(w)!r}"
    if isinstance(w, Fraction):
        return f"{w} = {float(w)!r}"
    return str(w)
