"""Scripted / counting streams and parameter regimes for the distribution checks (C14)."""
from __future__ import annotations

import math

from pydsol.core.streams import StreamInterface, MersenneTwister
from pydsol.core import distributions as D

LETTER = {"zero": 0.0, "sub": 5e-324, "eps": 2.0 ** -53, "quarter": 0.25, "half": 0.5, "threeq": 0.75, "one_minus": 1.0 - 2.0 ** -53}
TAIL = [0.37, 0.61, 0.83, 0.29, 0.52, 0.11, 0.94, 0.45, 0.68, 0.07, 0.76, 0.33]


class NonTerminating(Exception):
    pass


class ScriptedStream(StreamInterface):
    def __init__(self, prefix, cap=20000):
        self.script = list(prefix)
        self.n = 0
        self.cap = cap
        self.consumed = []

    def _next(self):
        if self.n >= self.cap:
            raise NonTerminating()
        u = self.script[self.n] if self.n < len(self.script) else TAIL[(self.n - len(self.script)) % len(TAIL)]
        self.n += 1
        if len(self.consumed) < 8:
            self.consumed.append(u)
        return u

    def next_float(self):
        return self._next()

    def next_bool(self):
        return self._next() < 0.5

    def random(self):
        return self._next()

    def next_int(self, lo, hi):
        # the library's own integer draw, fed with the scripted uniform (the wrapped generator is replaced)
        if getattr(self, "_mt", None) is None:
            self._mt = MersenneTwister(1)
            import random as _rnd
            attr = next((k for k, v in vars(self._mt).items() if isinstance(v, _rnd.Random)), None)      # found by type, not by private name
            if attr is not None:
                setattr(self._mt, attr, self)
            else:
                self._mt = False
        if self._mt is False:
            return lo + math.floor((hi - lo + 1) * self._next())
        return self._mt.next_int(lo, hi)

    def seed(self):
        return 0

    def original_seed(self):
        return 0

    def set_seed(self, seed):
        pass

    def reset(self):
        self.n = 0

    def save_state(self):
        return self.n

    def restore_state(self, state):
        self.n = state


class CountingStream(StreamInterface):
    """a real MersenneTwister behind a counter (who consumed how much)"""

    def __init__(self, seed):
        self.mt = MersenneTwister(seed)
        self.count = 0
        self.log = []

    def next_float(self):
        self.count += 1
        u = self.mt.next_float()
        self.log.append(u)
        return u

    def next_bool(self):
        self.count += 1
        return self.mt.next_bool()

    def next_int(self, lo, hi):
        self.count += 1
        return self.mt.next_int(lo, hi)

    def seed(self):
        return self.mt.seed()

    def original_seed(self):
        return self.mt.original_seed()

    def set_seed(self, seed):
        self.mt.set_seed(seed)

    def reset(self):
        self.mt.reset()

    def save_state(self):
        return self.mt.save_state()

    def restore_state(self, state):
        self.mt.restore_state(state)


# (class, regime) -> constructor arguments (after the stream)
PARAMS = {
    ("DistBernoulli", "p0"): (0.0,), ("DistBernoulli", "phalf"): (0.5,), ("DistBernoulli", "p1"): (1.0,),
    ("DistBernoulli", "p_neg"): (-0.1,), ("DistBernoulli", "p_gt1"): (1.5,), ("DistBernoulli", "p_int"): (1,),
    ("DistBeta", "lt1"): (0.5, 0.5), ("DistBeta", "eq1"): (1.0, 1.0), ("DistBeta", "gt1"): (2.0, 3.5), ("DistBeta", "mixed"): (0.5, 2.0),
    ("DistBeta", "a1_zero"): (0.0, 1.0), ("DistBeta", "a2_neg"): (1.0, -1.0), ("DistBeta", "str"): ("a", 1.0),
    ("DistBinomial", "p0"): (3, 0.0), ("DistBinomial", "phalf"): (3, 0.5), ("DistBinomial", "p1"): (3, 1.0),
    ("DistBinomial", "n_zero"): (0, 0.5), ("DistBinomial", "p_gt1"): (3, 1.5), ("DistBinomial", "n_float"): (2.5, 0.5),
    ("DistDiscreteUniform", "range"): (2, 7), ("DistDiscreteUniform", "negrange"): (-5, -2), ("DistDiscreteUniform", "beyond_2p53"): (2 ** 53, 2 ** 53 + 1), ("DistDiscreteUniform", "lo_eq_hi"): (3, 3),
    ("DistDiscreteUniform", "lo_gt_hi"): (5, 2), ("DistDiscreteUniform", "float"): (1.5, 3),
    ("DistConstant", "float"): (2.5,), ("DistConstant", "int"): (7,), ("DistConstant", "str"): ("x",),
    ("DistErlang", "k1"): (2.0, 1), ("DistErlang", "k3"): (2.0, 3), ("DistErlang", "k12"): (2.0, 12),
    ("DistErlang", "scale_zero"): (0.0, 3), ("DistErlang", "k_zero"): (2.0, 0), ("DistErlang", "k_float"): (2.0, 2.5),
    ("DistExponential", "default"): (2.0,), ("DistExponential", "tiny"): (1e-300,), ("DistExponential", "mean_zero"): (0.0,), ("DistExponential", "mean_neg"): (-1.0,),
    ("DistGamma", "lt1"): (0.5, 2.0), ("DistGamma", "eq1"): (1.0, 2.0), ("DistGamma", "gt1"): (2.5, 2.0),
    ("DistGamma", "shape_zero"): (0.0, 1.0), ("DistGamma", "scale_neg"): (1.0, -1.0),
    ("DistGeometric", "phalf"): (0.5,), ("DistGeometric", "psmall"): (0.01,), ("DistGeometric", "p0"): (0.0,), ("DistGeometric", "p1"): (1.0,),
    ("DistGeometric", "p_neg"): (-0.5,), ("DistGeometric", "p_gt1"): (1.5,),
    ("DistNegBinomial", "phalf"): (3, 0.5), ("DistNegBinomial", "p0"): (3, 0.0), ("DistNegBinomial", "p1"): (3, 1.0),
    ("DistNegBinomial", "s_zero"): (0, 0.5), ("DistNegBinomial", "p_gt1"): (3, 1.5),
    ("DistNormal", "std"): (0.0, 1.0), ("DistNormal", "shifted"): (10.0, 0.5), ("DistNormal", "sigma_zero"): (0.0, 0.0), ("DistNormal", "sigma_neg"): (0.0, -1.0),
    ("DistNormalTrunc", "two_sided"): (0.0, 1.0, -1.0, 2.0), ("DistNormalTrunc", "lower_only"): (0.0, 1.0, 0.5, math.inf),
    ("DistNormalTrunc", "upper_only"): (0.0, 1.0, -math.inf, 0.5), ("DistNormalTrunc", "far_tail"): (0.0, 1.0, 3.0, 4.0),
    ("DistNormalTrunc", "lo_zero"): (0.0, 1.0, 0.0, 2.0), ("DistNormalTrunc", "hi_zero"): (0.0, 1.0, -2.0, 0.0),
    ("DistNormalTrunc", "wide_ratio"): (50.0, 10.0, 0.001, 80.0),
    ("DistNormalTrunc", "hi_le_lo"): (0.0, 1.0, 2.0, 1.0), ("DistNormalTrunc", "sigma_zero"): (0.0, 0.0, -1.0, 1.0),
    ("DistNormalTrunc", "negligible"): (0.0, 1.0, 8.0, 9.0),
    ("DistLogNormal", "std"): (0.0, 1.0), ("DistLogNormal", "shifted"): (2.0, 0.5), ("DistLogNormal", "sigma_zero"): (0.0, 0.0),
    ("DistPearson5", "lt1"): (0.5, 2.0), ("DistPearson5", "gt1"): (2.5, 2.0), ("DistPearson5", "alpha_zero"): (0.0, 1.0), ("DistPearson5", "beta_neg"): (1.0, -1.0),
    ("DistPearson6", "lt1"): (0.5, 0.5, 2.0), ("DistPearson6", "gt1"): (2.5, 3.0, 2.0), ("DistPearson6", "mixed"): (0.5, 2.5, 1.0),
    ("DistPearson6", "alpha1_zero"): (0.0, 1.0, 1.0), ("DistPearson6", "beta_zero"): (1.0, 1.0, 0.0),
    ("DistPoisson", "small"): (0.5,), ("DistPoisson", "large"): (20.0,), ("DistPoisson", "huge"): (800.0,), ("DistPoisson", "rate_zero"): (0.0,),
    ("DistTriangular", "inside"): (1.0, 2.0, 4.0), ("DistTriangular", "mode_lo"): (1.0, 1.0, 4.0), ("DistTriangular", "mode_hi"): (1.0, 4.0, 4.0),
    ("DistTriangular", "mode_below"): (1.0, 0.5, 4.0), ("DistTriangular", "mode_above"): (1.0, 5.0, 4.0), ("DistTriangular", "lo_eq_hi"): (2.0, 2.0, 2.0),
    ("DistUniform", "unit"): (0.0, 1.0), ("DistUniform", "wide"): (-1e6, 1e6), ("DistUniform", "hi_le_lo"): (2.0, 1.0),
    ("DistWeibull", "lt1"): (0.5, 2.0), ("DistWeibull", "gt1"): (3.0, 2.0), ("DistWeibull", "alpha_zero"): (0.0, 1.0), ("DistWeibull", "beta_neg"): (1.0, -1.0),
}


def bounds(cls, args):
    if cls == "DistUniform":
        return args[0], args[1]
    if cls == "DistTriangular":
        return args[0], args[2]
    if cls == "DistNormalTrunc":
        return args[2], args[3]
    if cls == "DistDiscreteUniform":
        return args[0], args[1]
    if cls == "DistBinomial":
        return 0, args[0]
    return None, None


def classify(support, cls, args, x):
    """where does x lie relative to the support: 'inside' or a reason"""
    if isinstance(x, bool):
        return "bool"
    if support.startswith("int"):
        if not isinstance(x, int):
            return f"not_int:{type(x).__name__}"
        lo, hi = {"int_0_1": (0, 1), "int_nonneg": (0, None)}.get(support, bounds(cls, args))
        if x < lo:
            return "below"
        if hi is not None and x > hi:
            return "above"
        return "inside"
    if not isinstance(x, (int, float)):
        return f"not_number:{type(x).__name__}"
    if isinstance(x, float) and math.isnan(x):
        return "nan"
    if support == "the_constant":
        return "inside" if x == args[0] else "other_value"
    if support == "finite":
        return "inside" if math.isfinite(x) else "infinite"
    if support == "nonneg_finite":
        return "inside" if (x >= 0 and math.isfinite(x)) else ("negative" if x < 0 else "infinite")
    if support == "unit_interval":
        return "inside" if 0.0 <= x <= 1.0 else "outside"
    if support == "within_lo_hi":
        lo, hi = bounds(cls, args)
        return "inside" if lo <= x <= hi else ("below" if x < lo else "above")
    raise ValueError(support)


def make(cls, reg, stream):
    return getattr(D, cls)(stream, *PARAMS[(cls, reg)])
