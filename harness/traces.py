"""Batch trace validation (C->S): write recorded traces as one JSON array, run the
Trace*.tla module once (-workers 1), read back which traces were not explained."""
from __future__ import annotations

import json
import os
import re
import shutil

from . import tlc


class Rejection:
    def __init__(self, index, upto, trace):
        self.index = index          # 0-based trace index
        self.upto = upto            # number of events explained
        self.trace = trace
        self.event = trace[upto] if upto < len(trace) else None

    def __repr__(self):
        return f"Rejection(trace={self.index}, explained={self.upto}/{len(self.trace)}, first_unexplained={self.event})"


def validate(module: str, cfg: str, traces: list[list[dict]], *, extra_files=None,
             timeout=900, chunk=4000, deque=False, on_output=None):
    """Returns (rejections, stats) where stats has states/transitions summed over chunks.
    A trace spec invariant violation is returned as a rejection of the trace whose tid
    appears in the error trace."""
    rejections = []
    stats = {"distinct": 0, "generated": 0, "wall_s": 0.0, "runs": 0}
    for base in range(0, len(traces), chunk):
        part = traces[base:base + chunk]
        if not part:
            continue
        wd = tlc.scratch()
        try:
            tf = os.path.join(wd, "_traces.json")
            with open(tf, "w") as fh:
                json.dump(part, fh)
            r = tlc.run(module, cfg, workdir=wd, extra_files=extra_files, workers=1,
                        env={"TRACE_FILE": tf}, timeout=timeout,
                        java_opts="-Dtlc2.tool.queue.IStateQueue=StateDeque" if deque else None)
            if on_output:
                on_output(r.stdout, base)
            stats["distinct"] += r.distinct
            stats["generated"] += r.generated
            stats["wall_s"] += r.wall_s
            stats["runs"] += 1
            if r.violated and r.violation_kind != "postcondition":
                # an invariant of the specification failed on a recorded behaviour
                tid = None
                upto = 0
                for _, st in r.error_trace:
                    if "tid" in st:
                        tid, upto = st["tid"], st["l"] - 1
                if tid is None:
                    raise tlc.MachineryError("trace spec violated without tid:\n" + r.stdout[-3000:])
                rej = Rejection(base + tid - 1, max(upto - 1, 0), part[tid - 1])
                rej.invariant = r.violated
                rejections.append(rej)
                # remaining traces of this chunk were not fully examined: re-run without the offender
                rest = [t for k, t in enumerate(part) if k != tid - 1]
                idx = [base + k for k in range(len(part)) if k != tid - 1]
                if rest:
                    rj, st2 = validate(module, cfg, rest, extra_files=extra_files, timeout=timeout, chunk=chunk, deque=deque)  # (no on_output for the re-run)
                    for x in rj:
                        x.index = idx[x.index]
                    rejections.extend(rj)
                    for k in ("distinct", "generated", "wall_s", "runs"):
                        stats[k] += st2[k]
                continue
            for m in re.finditer(r'<<"REJECT", (\d+), (\d+)>>', r.stdout):
                i, reached = int(m.group(1)), int(m.group(2))
                rejections.append(Rejection(base + i - 1, reached - 1, part[i - 1]))
            if not r.ok and not re.search(r'"REJECT"', r.stdout):
                raise tlc.MachineryError("trace validation ended abnormally:\n" + r.stdout[-3000:])
        finally:
            shutil.rmtree(wd, ignore_errors=True)
    return rejections, stats
