"""Scenario driver for the thread-level check (C04 overlap): one real simulator + model under the
interposition scheduler; a caller thread runs a script of start / stop commands."""
from __future__ import annotations

import threading
import time

from pydsol.core.experiment import SingleReplication
from pydsol.core.model import DSOLModel
from pydsol.core.pubsub import EventListener
from pydsol.core.interfaces import ReplicationInterface, SimulatorInterface
from pydsol.core.utils import DSOLError
from harness import sched
from harness.sched import SCHED
from harness import drive_devs as dd


class _M(DSOLModel):
    def __init__(self, sim, nevents, faults, stoppers=()):
        super().__init__(sim)
        self.nevents, self.faults, self.stoppers = nevents, faults, set(stoppers)
        self.executed = []
        self.results = None

    def construct_model(self):
        for k in range(self.nevents):
            self.simulator.schedule_event_abs(float(k + 1), self, "h", k=k + 1)

    def h(self, k):
        SCHED.point("exec", "event", k)
        self.executed.append(k)
        if k in self.stoppers:
            self.simulator.stop()          # a command issued from a handler, i.e. on the run thread
        if -k in self.stoppers:
            self.simulator.cleanup()       # (what the WARN_AND_END strategy does when a handler fails)
            if self.results is not None:
                self.results.append(("cleanup@handler", "ok"))
        if k in self.faults:
            raise RuntimeError("fault")


class _Notif(EventListener):
    def __init__(self, out):
        self.out = out

    def notify(self, event):
        nm = dd.notif_types().get(event.event_type)
        if nm:
            self.out.append((SCHED.me() or "?", nm))


class _Cmd(EventListener):
    """a listener that issues a command (once) when it is notified, i.e. on the run thread"""

    def __init__(self, sim, results, onstart, onstop):
        self.sim, self.results, self.onstart, self.onstop = sim, results, onstart, onstop
        self.used = set()

    def notify(self, event):
        from pydsol.core.simulator import Simulator
        if event.event_type == Simulator.START_EVENT and self.onstart == "stop" and "start" not in self.used:
            self.used.add("start")
            self._do("stop", "stop@START")
        elif event.event_type == Simulator.STOP_EVENT and self.onstop == "start" and "stop" not in self.used:
            self.used.add("stop")
            self._do("start", "start@STOP")

    def _do(self, cmd, tag):
        try:
            getattr(self.sim, cmd)()
            self.results.append((tag, "ok"))
        except DSOLError:
            self.results.append((tag, "DSOLError"))


class Scenario:
    def __init__(self, script, nevents=2, faults=(), end=10.0, stoppers=(), onstart="none", onstop="none"):
        sched.install()
        SCHED.__init__()
        self._quiet = dd.quiet(keep_main=True)      # the run thread prints tracebacks of injected faults
        self._quiet.__enter__()
        self.script = list(script)
        self.sim = sched.ISim("thr")
        self.model = _M(self.sim, nevents, set(faults), stoppers)
        self.notifs = []
        self.results = []
        self.model.results = self.results
        captured, sim = [], self.sim
        orig = sim.schedule_event_abs

        def _capture(*a, **k):
            ev_ = orig(*a, **k)
            if len(a) >= 2 and a[1] is sim:
                captured.append(ev_)
            return ev_
        sim.schedule_event_abs = _capture
        try:
            with dd.quiet():
                self.sim.initialize(self.model, SingleReplication("r", 0.0, 0.0, end))
        finally:
            del sim.schedule_event_abs
        # keep only the model's events on the list: drop the warm-up event (it would be one more loop iteration)
        for ev_ in captured:
            self.sim.cancel_event(ev_)
        lst = _Notif(self.notifs)
        for et in dd.notif_types():
            self.sim.add_listener(et, lst)
        if onstart != "none" or onstop != "none":
            from pydsol.core.simulator import Simulator
            self.cmdl = _Cmd(self.sim, self.results, onstart, onstop)
            self.sim.add_listener(Simulator.START_EVENT, self.cmdl)
            self.sim.add_listener(Simulator.STOP_EVENT, self.cmdl)
        # private names are looked up defensively: after a rename the layer loses interleaving points (reported as binding
        # divergences in the evidence) but the verdicts, which use public state only, stay available
        self.worker = getattr(self.sim, "_Simulator__worker", None)
        if self.worker is None:
            from pydsol.core.simulator import SimulatorWorkerThread
            self.worker = next(t for t in threading.enumerate() if isinstance(t, SimulatorWorkerThread) and t.is_alive()
                               and any(v is self.sim for v in vars(t).values()))
        self.wake = next((v for v in vars(self.worker).values() if isinstance(v, sched.IEvent)), None)
        # the worker is parked in wait(): take it under control
        t0 = time.time()
        while not self.worker.is_waiting() and time.time() - t0 < 3:
            time.sleep(0.001)
        SCHED.blocked.add("w")
        SCHED.active = True
        self.caller = threading.Thread(target=self._caller, name="caller", daemon=True)
        self.managed = ["c", "w"]
        self.caller.start()
        SCHED.settle(self.managed)

    def _caller(self):
        SCHED.names[threading.get_ident()] = "c"
        try:
            with dd.quiet(keep_main=True):
                for cmd in self.script:
                    SCHED.point("cmd", cmd)
                    try:
                        getattr(self.sim, {"endrep": "end_replication"}.get(cmd, cmd))()
                        self.results.append(({"endrep": "end_replication"}.get(cmd, cmd), "ok"))
                    except DSOLError:
                        self.results.append(({"endrep": "end_replication"}.get(cmd, cmd), "DSOLError"))
                    except Exception as ex:
                        self.results.append(({"endrep": "end_replication"}.get(cmd, cmd), type(ex).__name__))
                    SCHED.point("ret", cmd, self.results[-1][1])
        finally:
            SCHED.finish("c")

    # ------------------------------------------------------------------
    def runnable(self):
        return SCHED.runnable(self.managed)

    def pending(self, nm):
        return SCHED.peek(nm)

    def step(self, nm, timeout=False):
        SCHED.grant(nm, timeout_sleep=timeout)
        SCHED.settle(self.managed)

    def quiescent(self):
        return not self.runnable()

    def run_schedule(self, chooser, max_steps=2000):
        """chooser(scenario, runnable) -> (thread, timeout?)"""
        n = 0
        while n < max_steps:
            r = self.runnable()
            if not r:
                break
            nm, to = chooser(self, r)
            self.step(nm, to)
            n += 1
        return n

    def state(self):
        d = self.sim.__dict__
        rs = self.sim.run_state                 # (read on the scheduler's thread: not an announced access)
        rep = self.sim.replication_state
        return {"rs": getattr(rs, "name", rs), "rep": getattr(rep, "name", rep), "runflag": d.get("_i__runflag"),
                "fin": self.worker.is_finalized(), "flag": self.wake.is_set() if self.wake is not None else None,
                "waiting": self.worker.is_waiting(), "executed": list(self.model.executed), "results": list(self.results),
                "done": sorted(SCHED.done)}

    def close(self):
        SCHED.release_all()
        try:
            self.caller.join(3.0)         # the released caller finishes its script freely (real time from here on)
        except Exception:
            pass
        try:
            self._quiet.__exit__(None, None, None)
        except Exception:
            pass
        try:
            with dd.quiet():
                w = self.worker
                if "_i__finalized" in w.__dict__:
                    w.__dict__["_i__finalized"] = True
                w.cleanup()                       # public: finalises the thread and wakes it up (the scheduler is released)
                if self.wake is not None:
                    self.wake._flag = True
                    with self.wake._real:
                        self.wake._real.notify_all()
                w.join(1.0)
        except Exception:
            pass
