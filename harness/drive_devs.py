"""Driver, recorder and projection for the DEVS simulator (C02-C06, C04a, C11).

A SimCtl owns one real simulator + model; programs are given as
   prog : rank -> {"ops": [{"k","a","p"}...], "raise": bool}     initOps : [op...]
(exactly DEVS.tla's prog / initOps); handlers perform them through the public scheduling
API.  Everything observable is appended to one trace (DEVS.tla / TraceDEVS.tla vocabulary).

Times: spec integer k  <->  int k | float k/4 | Duration(k/4,'s') | Duration 15k s (mixed units)
"""
from __future__ import annotations

import io
import logging
import sys
import threading
import time as _time
import contextlib

from pydsol.core.experiment import SingleReplication
from pydsol.core.interfaces import ReplicationInterface, SimulatorInterface
from pydsol.core.model import DSOLModel
from pydsol.core.pubsub import EventListener
from pydsol.core.simulator import (DEVSSimulatorFloat, DEVSSimulatorInt, DEVSSimulatorDuration,
                                   ErrorStrategy, RunState)
from pydsol.core.units import Duration
from pydsol.core.utils import DSOLError

CONCS = ("float", "int", "dur", "mixed")
CONCS_OFF_BASE = ("float", "int", "dur", "mixed", "float+6", "int-3", "dur+2", "int+7", "mixed-1", "float+4000000000", "dur+4000000000")
CONCS_OFF = CONCS_OFF_BASE + ("durh", "int+9007199254740993")
CONCS_STATS = CONCS_OFF_BASE + ("durh",)      # for models whose statistics integrate over time in floating point: an int clock beyond 2^53 is
                                              # outside what a float-valued time integral can represent (a numeric matter, not a lifecycle one)
# "durh": a Duration clock whose replication start carries the unit 'h' (the clock inherits it) while every delay is a multiple of 63 s:
#   clock + delay must be the exact SI sum, not a value rebuilt through the display unit (63k / 3600 * 3600 is 1 ulp off for k = 1, 2, 4, 8, 16);
# "int+9007199254740993": an int clock beyond 2^53 (nanoseconds since an epoch, say), where adjacent times coincide as floats
BAD = -999


class Conc:
    """name[+off]: e.g. "float", "int+5", "dur-3": the replication starts at T(off) and every absolute
    spec time k is the real time T(off + k) (delays are unaffected)."""

    def __init__(self, name):
        self.full = name
        self.off = 0
        for sign in "+-":
            if sign in name[1:]:
                base, _, o = name.partition(sign) if sign == "+" else name.rpartition(sign)
                name, self.off = base, int(sign + o)
                break
        self.name = name

    def at(self, k, alt=0):
        """absolute spec time k -> real time"""
        return self.t(k + self.off, alt)

    def sim(self, nm="s"):
        if self.name == "float":
            return DEVSSimulatorFloat(nm)
        if self.name == "int":
            return DEVSSimulatorInt(nm)
        return DEVSSimulatorDuration(nm)

    def t(self, k, alt=0):
        """time / delay for spec integer k"""
        n = self.name
        if n == "float":
            return k / 4.0
        if n == "int":
            return int(k)
        if n == "dur":
            return Duration(k / 4.0, "s")
        if n == "durh":
            return Duration(0.0, "h") if k == 0 else Duration(63.0 * k, "s")
        if n == "mixed":
            return Duration(15.0 * k, "s") if alt % 2 == 0 else Duration(k / 4.0, "min")
        raise ValueError(n)

    def nan(self):
        if self.name in ("float", "int"):
            return float("nan")
        if self.name == "durh":
            return Duration(float("nan"), "h")
        return Duration(float("nan"), "s")

    def back(self, x):
        """real time -> spec integer (BAD when not on the grid)"""
        try:
            n = self.name
            if n == "int" and type(x) is int:
                return x - self.off          # exact, also beyond 2^53
            v = float(x)
            if n == "durh":
                v = v / 63.0
            elif n == "float" or n == "dur":
                v = v * 4
            elif n == "mixed":
                v = v / 15.0
            if v != v or v != int(v):
                return BAD
            return int(v) - self.off
        except Exception:
            return BAD


class _Model(DSOLModel):
    def __init__(self, sim, ctl):
        super().__init__(sim)
        self.ctl = ctl

    def construct_model(self):
        self.ctl.on_construct()

    def h(self, k, tag=None):
        self.ctl.on_handler(k)

    def initial_hook(self):
        self.ctl.on_initial_method()


_UEC = None


_FAST = False
_MISSING = object()


def fast_selfwait():
    """stop() called on the run thread waits (at most) one second for the run thread, i.e. for itself, to be parked: a
    pure delay.  For the run thread only, the simulator module's clock jumps a quarter of a second at every sleep; all
    other threads keep the real clock and the real sleep."""
    global _FAST
    import pydsol.core.simulator as simmod
    import time as _t
    if _FAST and getattr(simmod.time, "_verif_fast", False):
        return
    from pydsol.core.simulator import SimulatorWorkerThread
    off = {}

    def on_worker():
        return isinstance(threading.current_thread(), SimulatorWorkerThread)

    class _Time:
        _verif_fast = True

        @staticmethod
        def time():
            return _t.time() + (off.get(threading.get_ident(), 0.0) if on_worker() else 0.0)

        def __getattr__(self, name):
            return getattr(_t, name)

    def _sleep(dt):
        if on_worker():
            off[threading.get_ident()] = off.get(threading.get_ident(), 0.0) + 0.25
        else:
            _t.sleep(dt)
    simmod.time = _Time()
    simmod.sleep = _sleep
    _FAST = True


def find_worker(sim):
    """the simulator's run thread: by its private name, else among the live threads (a rename must not matter)"""
    w = getattr(sim, "_Simulator__worker", _MISSING)
    if w is not _MISSING:
        return w
    from pydsol.core.simulator import SimulatorWorkerThread
    for t in threading.enumerate():
        if isinstance(t, SimulatorWorkerThread) and t.is_alive() and any(v is sim for v in vars(t).values()):
            return t
    return None


def wait_idle(sim, timeout=20.0):
    """wait until the run thread is parked or has finished (never poll run_state alone)"""
    t0 = _time.time()
    while _time.time() - t0 < timeout:
        w = find_worker(sim)
        if w is None or w.is_finalized() or not w.is_alive():
            if w is not None:
                w.join(10.0)
            return True
        if w.is_waiting():
            return True
        _time.sleep(0.0005)
    return False


def user_event_class():
    global _UEC
    if _UEC is None:
        from pydsol.core.simevent import SimEvent

        class TaggedSimEvent(SimEvent):
            """a user model may define its own event class; this one calls the handler directly, so a failing handler's
            OWN exception (not a DSOLError wrapper) reaches the simulator: fault containment must not depend on the wrapper.
            (It keeps its own reference to the handler: the library's private field names are none of its business.)"""

            def __init__(self, time, target, method, priority=5, **kwargs):
                super().__init__(time, target, method, priority, **kwargs)
                self._u_call, self._u_kwargs = getattr(target, method), kwargs

            def execute(self):
                try:
                    self._u_call(**self._u_kwargs)
                except Exception:
                    raise
                except BaseException as ex:       # (not an Exception: by Python's convention it would be meant to escape)
                    raise RuntimeError(str(ex)) from ex
        _UEC = TaggedSimEvent
    return _UEC


class _Listener(EventListener):
    def __init__(self, ctl):
        self.ctl = ctl

    def notify(self, event):
        self.ctl.on_notify(event)


class _OneShot(EventListener):
    """a subscriber that unsubscribes itself inside its first notification (registered BEFORE the observing listener:
    the notification it is handling must still reach everybody who was subscribed when it was fired)"""

    def __init__(self, sim, et):
        self.sim, self.et, self.n = sim, et, 0

    def __len__(self):
        return 0

    def notify(self, event):
        self.n += 1
        try:
            self.sim.remove_listener(self.et, self)
        except Exception:
            pass


class _Component(EventListener):
    """a model component built by construct_model that listens to the simulator (WARMUP / START / STOP / END_REPLICATION): it belongs
    to ONE replication; a re-initialisation rebuilds the model, so the component of an earlier replication must never hear of a later one"""

    def __init__(self, ctl, gen):
        self.ctl, self.gen = ctl, gen

    def notify(self, event):
        if self.ctl.n_constructs != self.gen and not self.ctl.errors:
            self.ctl.errors.append(f"stale_component: a component built by construct_model of replication {self.gen} was notified of "
                                   f"{getattr(event.event_type, 'name', event.event_type)} during replication {self.ctl.n_constructs} (its subscription survived the re-initialisation)")


NOTIF_TYPES = None


def notif_types():
    global NOTIF_TYPES
    if NOTIF_TYPES is None:
        NOTIF_TYPES = {
            ReplicationInterface.START_REPLICATION_EVENT: "START_REPLICATION",
            SimulatorInterface.START_EVENT: "START",
            SimulatorInterface.STOP_EVENT: "STOP",
            SimulatorInterface.TIME_CHANGED_EVENT: "TIME_CHANGED",
            ReplicationInterface.WARMUP_EVENT: "WARMUP",
            ReplicationInterface.END_REPLICATION_EVENT: "END_REPLICATION",
        }
    return NOTIF_TYPES


STRATEGY = {"continue": ErrorStrategy.LOG_AND_CONTINUE, "warn_continue": ErrorStrategy.WARN_AND_CONTINUE,
            "pause": ErrorStrategy.WARN_AND_PAUSE}


class Stuck(Exception):
    pass


class BaseFault(BaseException):
    """a handler may fail with something that is not an Exception subclass"""


FAULTS = (RuntimeError, KeyError, ZeroDivisionError, BaseFault)


class SimCtl:
    def __init__(self, conc: str, end_t: int, warm_t: int, strategy: str = "pause",
                 prog=None, init_ops=None, prog_gen=None, model_factory=None):
        self.conc = Conc(conc)
        self.end_t, self.warm_t = end_t, warm_t
        self.sim = self.conc.sim()
        self.strategy = strategy
        SimCtl._n = getattr(SimCtl, "_n", 0) + 1
        if SimCtl._n % 2:
            self.sim.set_error_strategy(STRATEGY[strategy])
        else:       # the optional log-level argument must not change which strategy is in force
            self.sim.set_error_strategy(STRATEGY[strategy], logging.ERROR)
        self.model = (model_factory or _Model)(self.sim, self)
        self.use_initial_method = bool(init_ops) and len(init_ops) >= 2 and hasattr(self.model, "initial_hook")
        if self.use_initial_method:
            self.sim.add_initial_method(self.model, "initial_hook")
        self._init_rest, self._init_rest_done = [], True
        self.listener = _Listener(self)
        self.prog = dict(prog or {})
        self.init_ops = init_ops
        self.prog_gen = prog_gen        # callable(rank, ctl) -> handler dict, for lazily generated programs
        self.trace = []
        self.lock = threading.Lock()
        self.events = {}
        self.next_rank = 0
        self.warm_rank = None
        self.seg_count = 0
        self.pause_at = None
        self.reached = threading.Event()
        self.executed = []
        self.alt = 0
        self.errors = []
        self.in_run_mode = False
        self.probe_starting = False
        self.probe_cmds = False         # commands issued by a listener of START_REPLICATION / STARTING (the simulator is STARTING: all refused)
        self.one_shots = False          # self-unsubscribing subscribers registered before the observing listener
        self.extra_on_handler = None
        self.obs = []

    # ------------------------------------------------------------------ recording
    def rec(self, e):
        with self.lock:
            self.trace.append(e)
        return e

    # ------------------------------------------------------------------ model side
    def apply_ops(self, ops):
        res, info = [], []
        sim, c = self.sim, self.conc
        for o in ops:
            k, a, p = o["k"], o["a"], o["p"]
            if isinstance(p, int) and p < 10:
                p += (0, -1, -5)[len(c.full) % 3]     # priorities are any ints (0 and negative ones too): a monotone shift per concretisation (10 = the warm-up event's own priority stays)
            self.alt += 1
            try:
                if k == "cancel":
                    sim.cancel_event(self.events[a])
                    res.append(-1); info.append("cancel")
                    continue
                rank = self.next_rank + 1
                kw = {"k": rank}
                if rank % 2 == 0:
                    kw["tag"] = "load 80% {x} %s"        # event arguments are arbitrary user data
                if rank % 3 == 2 and k in ("now", "rel", "abs"):
                    # a user subclass of SimEvent handed to schedule_event(): ids stay unique and increasing across event classes
                    tt = sim.simulator_time if k == "now" else (sim.simulator_time + c.t(a, self.alt) if k == "rel" else c.at(a, self.alt))
                    e = sim.schedule_event(user_event_class()(tt, self.model, "h", p, **kw))
                elif k == "now":
                    e = sim.schedule_event_now(self.model, "h", p, **kw)
                elif k == "rel":
                    e = sim.schedule_event_rel(c.t(a, self.alt), self.model, "h", p, **kw)
                elif k == "abs":
                    e = sim.schedule_event_abs(c.at(a, self.alt), self.model, "h", p, **kw)
                elif k == "nan_abs":
                    e = sim.schedule_event_abs(c.nan(), self.model, "h", p, k=rank)
                elif k == "nan_rel":
                    e = sim.schedule_event_rel(c.nan(), self.model, "h", p, k=rank)
                elif k == "str_abs":
                    e = sim.schedule_event_abs("x", self.model, "h", p, k=rank)
                elif k == "neg_tiny":     # a negative delay so small that clock + delay == clock
                    tiny = -1 if c.name == "int" else (-5e-324 if c.name == "float" else Duration(-5e-324, "s"))
                    e = sim.schedule_event_rel(tiny, self.model, "h", p, k=rank)
                elif k == "strat":
                    self.strategy = "pause" if a == 1 else ("continue", "warn_continue")[rank % 2]
                    if rank % 3 == 0:
                        sim.set_error_strategy(STRATEGY[self.strategy], logging.CRITICAL)
                    else:
                        sim.set_error_strategy(STRATEGY[self.strategy])
                    res.append(0); info.append("strat")
                    continue
                elif k == "endrep":       # the handler ends the replication
                    sim.end_replication()
                    res.append(0); info.append("endrep")
                    continue
                elif k == "reinit":       # initialize while running: must be refused and change nothing
                    if not sim.is_starting_or_running():
                        res.append(0); info.append("skipped: not running")
                        continue
                    try:
                        sim.initialize(self.model, self.sim.replication)
                    except DSOLError:
                        res.append(0); info.append("DSOLError")
                        continue
                    res.append(BAD); info.append("initialize accepted while running")
                    continue
                elif k == "hstop":
                    # stop() issued by the handler: accepted (the simulator is running), the run pauses after this event
                    if not sim.is_starting_or_running():
                        res.append(0); info.append("skipped: not running")
                        continue
                    fast_selfwait()
                    try:
                        sim.stop()
                    except DSOLError:
                        res.append(BAD); info.append("stop() refused inside a handler of a running simulator")
                        continue
                    res.append(0); info.append("stopped")
                    continue
                elif k in ("hstart", "hrun", "hstep"):
                    # a run command issued from a handler (the simulator is running): refused, and a refused command
                    # changes nothing -- in particular not the bound of the run in progress
                    if not sim.is_starting_or_running():
                        res.append(0); info.append("skipped: not running")
                        continue
                    try:
                        if k == "hstart":
                            sim.start()
                        elif k == "hstep":
                            sim.step()
                        elif rank % 2 == 0:
                            sim.run_up_to(sim.simulator_time)
                        else:
                            sim.run_up_to_including(sim.simulator_time)
                    except DSOLError:
                        res.append(0); info.append("DSOLError")
                        continue
                    res.append(BAD); info.append(f"{k} accepted while running")
                    continue
                else:
                    raise ValueError(k)
                self.next_rank = rank
                self.events[rank] = e
                res.append(rank); info.append("ok")
            except Exception as ex:
                res.append(0); info.append(type(ex).__name__)
        return res, info

    def on_construct(self):
        # the model's initial scheduling is split: the first part in construct_model, the rest in a method registered
        # once with add_initial_method (executed by every initialize after construct_model)
        self.n_constructs = getattr(self, "n_constructs", 0) + 1
        comp = _Component(self, self.n_constructs)
        for et in notif_types():
            if notif_types()[et] in ("WARMUP", "START", "STOP", "END_REPLICATION"):
                self.sim.add_listener(et, comp)
        ops = self.init_ops or []
        cut = len(ops) if not self.use_initial_method else (len(ops) + 1) // 2
        self.construct_res = self.apply_ops(ops[:cut])
        self._init_rest = ops[cut:]
        self._init_rest_done = False

    def on_initial_method(self):
        self._init_rest_done = True
        r = self.apply_ops(self._init_rest)
        self.construct_res = (self.construct_res[0] + r[0], self.construct_res[1] + r[1])

    def on_handler(self, k):
        clk = self.conc.back(self.sim.simulator_time)
        if k not in self.prog:
            if self.prog_gen is None:
                self.errors.append(f"exec_unexpected: event with rank {k} executed at clock {clk}, but it does not execute in the specification")
                self.prog[k] = {"ops": [], "raise": False}
            else:
                self.prog[k] = self.prog_gen(k, self)
        h = self.prog[k]
        res, info = self.apply_ops(h["ops"])
        if self.extra_on_handler:
            self.extra_on_handler(k, clk)
        self.executed.append((k, clk))
        self.rec({"a": "Exec", "id": k, "clk": clk, "kind": "H", "ops": h["ops"], "res": res,
                  "raise": bool(h["raise"]), "info": info})
        if (h["raise"] and self.strategy == "pause") or "stopped" in info:
            self.seg_count += 1      # the fault (or the handler's own stop()) pauses the run: no stop() rendezvous here
        else:
            self._maybe_pause()
        if h["raise"]:
            raise FAULTS[k % len(FAULTS)](f"injected fault in handler {k}")

    def _maybe_pause(self):
        self.seg_count += 1
        if self.pause_at is not None and self.seg_count == self.pause_at and threading.current_thread() is not self.ctl_thread:
            self.reached.set()
            t0 = _time.time()
            while self.sim.run_state != RunState.STOPPING:
                if _time.time() - t0 > 20:
                    self.errors.append("pause rendezvous timed out")
                    return
                _time.sleep(0.0002)
            self.rec({"a": "Pause"})

    def _probe_listener_cmds(self, where):
        """the simulator is STARTING while start() / run_up_to() hands out START_REPLICATION and STARTING: a listener that calls
        start, step or a bounded run is refused with DSOLError, nothing changes and nobody is notified"""
        if threading.current_thread() is not self.ctl_thread or getattr(self, "cur_cmd", None) not in ("Start", "RunUpTo", "RunUpToIncl"):
            return
        before = (self.sim.run_state, self.sim.replication_state, self.sim.simulator_time, len(self.trace))
        for name, call in (("step", lambda: self.sim.step()), ("start", lambda: self.sim.start()),
                           ("run_up_to_including", lambda: self.sim.run_up_to_including(self.sim.replication.end_sim_time))):
            try:
                call()
                self.errors.append(f"listener_cmd_accepted: {name}() issued by a listener of {where} (simulator STARTING) was accepted")
                return
            except DSOLError:
                pass
            except Exception as ex:
                self.errors.append(f"listener_cmd_accepted: {name}() issued by a listener of {where} raised {type(ex).__name__}: {ex}")
                return
            after = (self.sim.run_state, self.sim.replication_state, self.sim.simulator_time, len(self.trace))
            if after != before:
                self.errors.append(f"listener_cmd_accepted: refused {name}() in a listener of {where} changed (run state, replication state, time, #records) {before} -> {after}")
                return

    def on_notify(self, event):
        ty = notif_types().get(event.event_type)
        if self.probe_cmds and (ty == "START_REPLICATION" or event.event_type is SimulatorInterface.STARTING_EVENT):
            self._probe_listener_cmds(ty or "STARTING")
        if ty is None:
            if self.probe_starting and event.event_type is SimulatorInterface.STARTING_EVENT:
                # initialize() issued in the STARTING window must be refused and change nothing
                try:
                    self.sim.initialize(self.model, self.sim.replication)
                    self.errors.append("reinit_accepted: initialize() accepted while the simulator is STARTING")
                except DSOLError:
                    pass
                except Exception as ex:
                    self.errors.append(f"reinit_accepted: initialize() while STARTING raised {type(ex).__name__}")
            return
        ts = self.conc.back(event.timestamp)
        if ty == "WARMUP":
            self.executed.append((self.warm_rank, ts))
            self.rec({"a": "Exec", "id": self.warm_rank, "clk": self.conc.back(self.sim.simulator_time), "kind": "W",
                      "ops": [], "res": [], "raise": False})
            self.rec({"a": "Notif", "ty": ty, "ts": ts})
            self._maybe_pause()
            return
        if ty == "TIME_CHANGED" and self.conc.back(event.content) != ts:
            ts = BAD
        self.rec({"a": "Notif", "ty": ty, "ts": ts})

    # ------------------------------------------------------------------ controller side
    def subscribe(self):
        for et in notif_types():
            if self.one_shots:
                self.sim.add_listener(et, _OneShot(self.sim, et))
            self.sim.add_listener(et, self.listener)
        if self.probe_starting or self.probe_cmds:
            self.sim.add_listener(SimulatorInterface.STARTING_EVENT, self.listener)

    def worker(self):
        w = getattr(self.sim, "_Simulator__worker", _MISSING)
        if w is not _MISSING:
            return w
        # the private field was renamed: find the run thread among the live threads
        from pydsol.core.simulator import SimulatorWorkerThread
        for t in threading.enumerate():
            if isinstance(t, SimulatorWorkerThread) and t.is_alive() and any(v is self.sim for v in vars(t).values()):
                return t
        return None

    def wait_quiescent(self, timeout=20.0):     # (returns at once when quiescent; generous because checks run under heavy machine load)
        t0 = _time.time()
        while True:
            w = self.worker()
            if w is None:
                return True
            if w.is_finalized():
                w.join(10.0)
                return True
            flag = getattr(w, "_SimulatorWorkerThread__wakeup_flag", None)
            if w.is_waiting() and (flag is None or not flag.is_set()):
                return True
            if _time.time() - t0 > timeout:
                return False
            _time.sleep(0.0003)

    def _call(self, name, fn, ev):
        self.ctl_thread = threading.current_thread()
        e = self.rec(ev)
        w_before = self.worker()
        self.cur_cmd = name
        try:
            fn()
            e["res"] = "ok"
        except DSOLError:
            e["res"] = "DSOLError"
        except Exception as ex:
            e["res"] = type(ex).__name__
            e["msg"] = str(ex)[:200]
        finally:
            self.cur_cmd = None
        return e

    def initialize(self):
        self.events, self.next_rank, self.executed = {}, 0, []
        self.seg_count, self.pause_at = 0, None
        self.obs = []
        old = self.worker()
        c = self.conc
        # every replication is a fresh Replication object with its own start time (spec time k of replication r is the
        # real time T(off_r + k)): nothing of an earlier replication's run control may survive a re-initialisation
        if not hasattr(c, "base_off"):
            c.base_off, self.n_init = c.off, 0
        prev_off = c.off
        c.off = c.base_off + (0, 2, -1, 5)[self.n_init % 4]
        repl = SingleReplication(f"rep{self.n_init}", c.at(0), c.t(self.warm_t), c.t(self.end_t))
        # the warm-up event is the one initialize() schedules on the simulator itself: caught at the public scheduling method
        captured, sim = [], self.sim
        orig = sim.schedule_event_abs

        def _capture(*a, **k):
            ev_ = orig(*a, **k)
            if len(a) >= 2 and a[1] is sim:
                captured.append(ev_)
            return ev_
        sim.schedule_event_abs = _capture
        try:
            e = self._call("Initialize", lambda: self.sim.initialize(self.model, repl), {"a": "Initialize", "ops": self.init_ops or []})
        finally:
            try:
                del sim.schedule_event_abs
            except AttributeError:
                pass
        if e["res"] == "ok":
            self.n_init += 1
        else:
            c.off = prev_off
        if e["res"] == "ok" and self.use_initial_method and not self._init_rest_done:
            self.errors.append("initial_method_skipped: the method registered with add_initial_method was not executed by this initialize()")
        if e["res"] == "ok":
            self.warm_rank = self.next_rank + 1
            self.next_rank += 1
            if captured:
                self.events[self.warm_rank] = captured[-1]
            self.subscribe()
        e["old_worker_dead"] = 1 if (old is None or not old.is_alive() or (old.join(10.0) or not old.is_alive())) else 0
        return e

    def run_cmd(self, name, b=None, pause_after=None):
        """Start / RunUpTo / RunUpToIncl, optionally pausing after the n-th event of the segment."""
        self.seg_count, self.pause_at = 0, pause_after
        self.reached.clear()
        self.in_run_mode = True
        sim, c = self.sim, self.conc
        if name == "Start":
            e = self._call(name, sim.start, {"a": name})
        elif name == "RunUpTo":
            e = self._call(name, lambda: sim.run_up_to(c.at(b)), {"a": name, "b": b})
        else:
            e = self._call(name, lambda: sim.run_up_to_including(c.at(b)), {"a": name, "b": b})
        if e["res"] == "ok" and pause_after is not None:
            t0 = _time.time()
            hit = False
            while _time.time() - t0 < 20.0:
                if self.reached.wait(0.0005):
                    hit = True
                    break
                if not sim.is_starting_or_running() and self.wait_quiescent(0.0):
                    hit = self.reached.is_set()
                    break
            if hit:
                try:
                    sim.stop()
                except DSOLError:
                    self.errors.append("stop() at pause rendezvous refused")
            else:
                self.errors.append("pause point not reached")
        ok = self.wait_quiescent()
        self.in_run_mode = False
        self.pause_at = None
        if not ok:
            self.errors.append(f"not quiescent after {name}")
        return e

    def step(self):
        self.seg_count, self.pause_at = 0, None
        e = self._call("Step", self.sim.step, {"a": "Step"})
        self.wait_quiescent()
        return e

    def stop(self):
        e = self._call("Stop", self.sim.stop, {"a": "Stop"})
        self.wait_quiescent()
        return e

    def end_replication(self):
        e = self._call("EndReplication", self.sim.end_replication, {"a": "EndReplication"})
        self.wait_quiescent()
        return e

    def cleanup(self):
        w = self.worker()
        e = self._call("Cleanup", self.sim.cleanup, {"a": "Cleanup"})
        if w is not None:
            w.join(10.0)
            e["worker_dead"] = 0 if w.is_alive() else 1
        return e

    def pending_ranks(self):
        # public API only: an event handed out by the scheduling methods is pending iff the event list contains it
        try:
            el = self.sim.eventlist()
            out = [r for r, evn in self.events.items() if el.contains(evn)]
            if el.size() != len(out):
                return sorted(out), 0           # (events we do not know about: do not judge the pending set)
            return sorted(out), 1
        except Exception:
            return [], 0

    def observe(self):
        sim = self.sim
        pend, known = self.pending_ranks()
        w = self.worker()
        alive = 1 if (w is not None and w.is_alive()) else 0
        stats = ""
        if hasattr(self.model, "digest") and sim.run_state.name == "ENDED":
            import json as _json
            stats = _json.dumps({"digest": self.model.digest(), "registry": self.model.registry_ok()}, sort_keys=True)
        return self.rec({"a": "Quiescent", "rs": sim.run_state.name, "rep": sim.replication_state.name,
                         "clock": self.conc.back(sim.simulator_time), "pending": pend, "pending_known": known,
                         "alive": alive, "stats": stats, "want_stats": 0, "executed": [list(x) for x in self.executed]})

    def dispose(self):
        try:
            with quiet():
                w = self.worker()
                self.sim.cleanup()
                if w is not None:
                    w.join(1.0)
        except Exception:
            pass


class _Proxy(io.TextIOBase):
    """stdout / stderr proxy: the simulator prints warnings and tracebacks of injected faults from its worker
    thread; they are dropped while muted (all threads, or all but the main thread)"""
    mute_all = 0
    mute_others = 0

    def __init__(self, real):
        self.real = real

    def write(self, s):
        if _Proxy.mute_all > 0:
            return len(s)
        if _Proxy.mute_others > 0 and threading.current_thread() is not threading.main_thread():
            return len(s)
        return self.real.write(s)

    def flush(self):
        try:
            self.real.flush()
        except Exception:
            pass


def _install_proxy():
    if not isinstance(sys.stdout, _Proxy):
        sys.stdout = _Proxy(sys.stdout)
    if not isinstance(sys.stderr, _Proxy):
        sys.stderr = _Proxy(sys.stderr)


@contextlib.contextmanager
def quiet(keep_main=False):
    _install_proxy()
    attr = "mute_others" if keep_main else "mute_all"
    setattr(_Proxy, attr, getattr(_Proxy, attr) + 1)
    logging.disable(logging.CRITICAL)
    try:
        yield
    finally:
        setattr(_Proxy, attr, getattr(_Proxy, attr) - 1)
        if _Proxy.mute_all == 0 and _Proxy.mute_others == 0:
            logging.disable(logging.NOTSET)


def clean_trace(tr):
    """Trace for TLC: drop informational fields, keep the vocabulary of TraceDEVS.tla."""
    out = []
    for e in tr:
        d = {k: v for k, v in e.items() if k not in ("info", "msg", "executed", "old_worker_dead", "worker_dead")}
        out.append(d)
    return out
