"""Dump the live tables of pydsol.core.units into a generated TLA+ module UnitsData.tla.
The implementation's tables ARE the artefact being validated: TLC evaluates the invariants of
Units.tla over every entry."""
from __future__ import annotations

import inspect


def enc(s: str) -> str:
    """ASCII-safe, TLA+-string-safe encoding of a unit name"""
    out = []
    for ch in s:
        if ch in '"\\' or ord(ch) > 126 or ord(ch) < 32:
            out.append(f"<U+{ord(ch):04X}>")
        else:
            out.append(ch)
    return "".join(out)


def classes():
    import pydsol.core.units as U
    qs = [c for n, c in vars(U).items() if inspect.isclass(c) and issubclass(c, U.Quantity) and c is not U.Quantity]
    return sorted(qs, key=lambda c: c.__name__)


def sig_of(cls):
    import pydsol.core.units as U
    sd = cls._sidict
    return [int(sd.get(u, 0)) for u in U.SI.SIUNITS]


def tla_str(s):
    return '"' + enc(s) + '"'


def generate() -> tuple[str, dict]:
    import pydsol.core.units as U
    qs = classes()
    names = [c.__name__ for c in qs]
    lines = ["---- MODULE UnitsData ----", "(* generated from the live module pydsol.core.units *)", "EXTENDS Integers, Sequences"]
    lines.append("Types == {" + ", ".join(tla_str(n) for n in names) + "}")
    lines.append("SigTab == {" + ",\n   ".join(f"<<{tla_str(c.__name__)}, <<{', '.join(str(x) if x >= 0 else f'(0-{-x})' for x in sig_of(c))}>> >>" for c in qs) + "}")
    unknown_sidict_keys = {c.__name__: [k for k in c._sidict if k not in U.SI.SIUNITS] for c in qs}
    lines.append("BadSigKeys == {" + ", ".join(tla_str(n) for n, v in unknown_sidict_keys.items() if v) + "}")

    def tab(attr):
        rows = []
        for c in qs:
            for k, v in getattr(c, attr).items():
                kn = getattr(k, "__name__", repr(k))
                vn = getattr(v, "__name__", repr(v))
                rows.append(f"<<{tla_str(c.__name__)}, {tla_str(kn)}, {tla_str(vn)}>>")
        return "{" + ",\n   ".join(rows) + "}"
    lines.append("MulTab == " + tab("_mul"))
    lines.append("DivTab == " + tab("_div"))
    # unit tables
    urows = []
    nunits = 0
    for c in qs:
        for u, f in c._units.items():
            nunits += 1
            disp = c._displayunits.get(u, u)
            urows.append("[ty |-> %s, u |-> %s, f |-> %s, fnum |-> %s, dispstr |-> %s, disp |-> %s, desc |-> %s]" % (
                tla_str(c.__name__), tla_str(u if isinstance(u, str) else repr(u)),
                tla_str(float(f).hex() if isinstance(f, (int, float)) else repr(f)),
                "TRUE" if isinstance(f, (int, float)) and not isinstance(f, bool) else "FALSE",
                "TRUE" if isinstance(disp, str) else "FALSE",
                tla_str(disp if isinstance(disp, str) else repr(disp)),
                "TRUE" if (u in c._descriptions and isinstance(c._descriptions[u], str)) else "FALSE"))
    lines.append("UnitRows == {" + ",\n   ".join(urows) + "}")
    lines.append("BaseUnits == {" + ", ".join(f"<<{tla_str(c.__name__)}, {tla_str(c._baseunit)}>>" for c in qs) + "}")
    allnames = list(getattr(U, "__all__", []))
    lines.append("AllNames == {" + ", ".join("[name |-> %s, exists |-> %s]" % (tla_str(n), "TRUE" if hasattr(U, n) else "FALSE") for n in allnames) + "}")
    lines.append("====")
    meta = {"classes": len(qs), "units": nunits, "mul_entries": sum(len(c._mul) for c in qs), "div_entries": sum(len(c._div) for c in qs),
            "all_names": len(allnames)}
    return "\n".join(lines) + "\n", meta
