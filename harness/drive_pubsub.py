"""Driver for pubsub (C08): scripted re-entrant listeners.

S->C: a TLC behaviour of PubSub.tla is a linear script; top-level actions are executed
directly, Deliver/Return/EndFire are *expected* at the points where the real producer calls
notify / returns from fire.  C->S: listeners react randomly (seeded) and everything is recorded
in the same vocabulary."""
from __future__ import annotations

import itertools

from pydsol.core.pubsub import EventListener, EventProducer, EventType, TimedEvent, Event

_uid = itertools.count()


def _def_A(nm):
    return EventType(nm)


def _def_B(nm):
    return EventType(nm)


def _def_C(nm):
    return EventType(nm)


def _def_D(nm):
    return EventType(nm)


def fresh_types(names):
    """EventType keys (defining scope + name) are registered process-wide, duplicates refused.
    Distinct specification types are concretised as types that SHARE the human-readable name
    and differ only in the defining scope (like Queue.CHANGED / Server.CHANGED): they must stay
    distinct subscription keys."""
    n = next(_uid)
    defs = [_def_A, _def_B, _def_C, _def_D]
    return {nm: defs[i % 4](f"EV_{n}_{i // 4}") for i, nm in enumerate(names)}


class Mismatch(Exception):
    def __init__(self, key, detail):
        super().__init__(detail)
        self.key = key
        self.detail = detail


class _L(EventListener):
    def __init__(self, name, runner):
        self.name = name
        self.runner = runner

    def notify(self, event):
        self.runner.on_notify(self, event)


class _LEmpty(_L):
    """a listener that is FALSY (a collecting listener whose collection is still empty): a listener is identified
    by its object, never by its truth value"""

    def __len__(self):
        return 0


class Base:
    def __init__(self, type_names, listener_names, producer_factory=EventProducer):
        self.types = fresh_types(type_names)
        self.tyname = {v: k for k, v in self.types.items()}
        self.prod = producer_factory()
        self.ls = {n: (_LEmpty if k % 2 == 0 else _L)(n, self) for k, n in enumerate(listener_names)}

    def do_op(self, o):
        a = o["a"]
        if a == "Add":
            self.prod.add_listener(self.types[o["ty"]], self.ls[o["l"]])
        elif a == "Remove":
            self.prod.remove_listener(self.types[o["ty"]], self.ls[o["l"]])
        elif a == "RemoveAll":
            ty = None if o["ty"] == "none" else self.types[o["ty"]]
            li = None if o["l"] == 0 else self.ls[o["l"]]
            self.prod.remove_all_listeners(ty, li)
        elif a == "HasListeners":
            return 1 if self.prod.has_listeners() else 0
        elif a == "Fire":
            if o["ts"] == -1:
                self.prod.fire(self.types[o["ty"]], o["eid"])
            else:
                k = o["ts"]   # scaled stamp: real timestamp = k/4 (int when divisible)
                self.prod.fire_timed(k // 4 if k % 4 == 0 else k / 4.0, self.types[o["ty"]], o["eid"])
        else:
            raise ValueError(a)

    @staticmethod
    def stamp(event):
        if isinstance(event, TimedEvent):
            v = event.timestamp * 4
            return int(v) if v == int(v) else repr(event.timestamp)
        return -1


class Replayer(Base):
    """S->C"""

    def __init__(self, script, **kw):
        super().__init__(**kw)
        self.script = script
        self.i = 0
        self.exhausted_in_flight = False

    def cur(self):
        return self.script[self.i] if self.i < len(self.script) else None

    def exec_op(self, o):
        self.i += 1
        if o["a"] == "Fire":
            self.do_op(o)
            c = self.cur()
            if c is None:
                return
            if c["a"] != "EndFire" or c["eid"] != o["eid"]:
                raise Mismatch("missing_delivery", f"fire of event {o['eid']} returned but the specification expects {c}")
            self.i += 1
        else:
            r = self.do_op(o)
            if o["a"] == "HasListeners" and r != o["ret"]:
                raise Mismatch("has_listeners", f"has_listeners() = {r}, specification {o['ret']}")

    def on_notify(self, li, event):
        c = self.cur()
        if c is None:
            return   # behaviour was cut mid-delivery by the depth bound: nothing more to compare
        got = {"a": "Deliver", "l": li.name, "eid": event.content, "ty": self.tyname.get(event.event_type), "ts": self.stamp(event)}
        if c["a"] != "Deliver" or any(c[k] != got[k] for k in ("l", "eid", "ty", "ts")):
            raise Mismatch("unexpected_delivery", f"producer delivered {got} where the specification expects {c}")
        self.i += 1
        while True:
            c = self.cur()
            if c is None:
                return
            if c["a"] == "Return":
                self.i += 1
                return
            if c["a"] in ("Deliver", "EndFire"):
                raise Mismatch("script", f"script inconsistency at {self.i}: {c}")
            self.exec_op(c)

    def run(self):
        while self.cur() is not None:
            c = self.cur()
            if c["a"] in ("Deliver", "Return", "EndFire"):
                raise Mismatch("missing_delivery", f"specification expects {c} but the producer is idle")
            self.exec_op(c)

    def probe(self):
        """Public observation of the final subscription state: fire one plain event per type."""
        out = {}
        for nm, ty in self.types.items():
            seen = []

            class P(EventListener):
                def notify(s, e):
                    pass
            saved = {n: l.runner for n, l in self.ls.items()}
            rec = _Rec(seen)
            for l in self.ls.values():
                l.runner = rec
            try:
                self.prod.fire(ty, "probe")
            finally:
                for n, l in self.ls.items():
                    l.runner = saved[n]
            out[nm] = seen
        return out


class _Rec:
    def __init__(self, seen):
        self.seen = seen

    def on_notify(self, li, event):
        self.seen.append(li.name)


class RandomRunner(Base):
    """C->S"""

    def __init__(self, rng, type_names, listener_names, max_depth=3, max_fires=25, **kw):
        super().__init__(type_names, listener_names, **kw)
        self.rng = rng
        self.tr = []
        self.depth = 0
        self.nf = 0
        self.max_depth = max_depth
        self.max_fires = max_fires
        self.tnames = list(type_names)
        self.lnames = list(listener_names)

    def rand_op(self):
        r = self.rng
        k = r.random()
        ty, li = r.choice(self.tnames), r.choice(self.lnames)
        if k < 0.35:
            return {"a": "Add", "ty": ty, "l": li}
        if k < 0.5:
            return {"a": "Remove", "ty": ty, "l": li}
        if k < 0.6:
            return {"a": "RemoveAll", "ty": r.choice(self.tnames + ["none"]), "l": r.choice(self.lnames + [0])}
        if k < 0.65:
            return {"a": "HasListeners"}
        if self.depth < self.max_depth and self.nf < self.max_fires:
            self.nf += 1
            return {"a": "Fire", "ty": ty, "eid": self.nf, "ts": r.choice([-1, -1, 0, 12, 40, 10, 7])}
        return {"a": "Add", "ty": ty, "l": li}

    def step(self):
        o = self.rand_op()
        if o["a"] == "HasListeners":
            o["ret"] = self.do_op(o)
            self.tr.append(o)
        elif o["a"] == "Fire":
            self.tr.append(o)
            self.depth += 1
            try:
                self.do_op(o)
            finally:
                self.depth -= 1
            self.tr.append({"a": "EndFire", "eid": o["eid"]})
        else:
            self.tr.append(o)
            self.do_op(o)

    def on_notify(self, li, event):
        self.tr.append({"a": "Deliver", "l": li.name, "eid": event.content,
                        "ty": self.tyname.get(event.event_type), "ts": self.stamp(event)})
        n = self.rng.choice([0, 0, 1, 1, 2, 3])
        for _ in range(n):
            self.step()
        self.tr.append({"a": "Return", "l": li.name, "eid": event.content})

    def run(self, nops):
        for _ in range(nops):
            self.step()
        return self.tr
