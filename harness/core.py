"""Common run context of a check: tier/seed, violation bookkeeping against
known_findings.json, replay files, evidence writer, exit code discipline.

exit 0: property held on everything explored (KNOWN-FINDING lines allowed)
exit 1: at least one VIOLATION not listed in known_findings.json
exit 2: machinery failure (TLC crash / timeout / vacuity / unparsable output)
"""
from __future__ import annotations

import json
import os
import random
import sys
import time
import traceback

VERIF = os.path.dirname(os.path.dirname(os.path.abspath(__file__)))
REPO = os.environ.get("VERIF_REPO", "/repo")
EVIDENCE_DIR = os.path.join(VERIF, "evidence")
REPLAY_DIR = os.path.join(VERIF, "replays")
KNOWN = os.path.join(VERIF, "known_findings.json")
GUARD = "PYDSOL_CORE_VERIF"


def load_known():
    if not os.path.exists(KNOWN):
        return {"findings": [], "fixed": []}
    with open(KNOWN) as fh:
        return json.load(fh)


class Vacuity(Exception):
    pass


class Ctx:
    def __init__(self, pid: str, tier: str, seed: int, replay: str | None = None):
        self.pid = pid
        self.tier = tier
        self.seed = seed
        self.replay = replay
        self.rng = random.Random(seed)
        self.t0 = time.time()
        self.violations: list[dict] = []     # not known
        self.known_hits: dict[str, dict] = {}  # key -> finding (printed once)
        self.known = [f for f in load_known().get("findings", []) if f["property"] == pid]
        self.states = 0
        self.transitions = 0
        self.traces = 0          # traces / behaviours bound to the implementation
        self.evaluations = 0
        self.samples: list = []
        self.notes: dict = {}
        self.assumptions: list[str] = []
        self.tlc_runs: list[dict] = []
        self.binding: dict = {}
        self.distinct: set = set()
        os.makedirs(REPLAY_DIR, exist_ok=True)
        os.makedirs(EVIDENCE_DIR, exist_ok=True)

    @property
    def quick(self):
        return self.tier == "quick"

    def pick(self, quick, thorough):
        return quick if self.quick else thorough

    # ------------------------------------------------------------ TLC bookkeeping
    def add_tlc(self, name, r, expect_ok=True):
        self.states += r.distinct
        self.transitions += r.generated
        self.tlc_runs.append({"model": name, "distinct": r.distinct, "generated": r.generated,
                              "depth": r.depth, "wall_s": round(r.wall_s, 2),
                              "result": "ok" if r.ok else f"violated:{r.violated}"})

    def sample(self, s, cap=6):
        if len(self.samples) < cap:
            self.samples.append(s)

    # ------------------------------------------------------------ violations
    def violation(self, key: str, detail: str, replay_obj=None):
        """key: structural signature used to match known findings (prefix match on the
        finding's 'key').  Returns True if new (not known)."""
        for f in self.known:
            if key == f["key"] or key.startswith(f["key"] + "|"):
                if f["key"] not in self.known_hits:
                    self.known_hits[f["key"]] = dict(f, example=detail)
                return False
        n = len(self.violations)
        path = None
        if n < 20:
            path = os.path.join(REPLAY_DIR, f"{self.pid}-{self.tier}-{self.seed}-{n}.json")
            with open(path, "w") as fh:
                json.dump({"property": self.pid, "key": key, "detail": detail, "seed": self.seed,
                           "tier": self.tier, "case": replay_obj}, fh, indent=1, default=str)
        self.violations.append({"key": key, "detail": detail, "replay": path})
        return True

    # ------------------------------------------------------------ finish
    def finish(self, level="model_checking", extra_cov=None):
        wall = time.time() - self.t0
        cov = {
            "states": self.states,
            "transitions": self.transitions,
            "traces_validated_against_impl": self.traces,
            "samples": self.samples or ["(none)"],
            "evaluations": self.evaluations,
            "distinct_nontrivial": len(self.distinct),
            "tlc_runs": self.tlc_runs,
            "binding": self.binding,
            "notes": self.notes,
            "known_findings_hit": sorted(self.known_hits),
        }
        cov.update(extra_cov or {})
        if level == "other":
            cov["explanation"] = self.notes.get("explanation", "structural part decided by TLC over tables generated from the live module "
                                                "(exhaustive); numeric part sampled over values by the projection")
        ev = {
            "property_id": self.pid, "tier": self.tier, "seed": self.seed, "level": level,
            "coverage": cov, "assumptions": self.assumptions, "wall_s": round(wall, 2),
            "violations": len(self.violations),
        }
        with open(os.path.join(EVIDENCE_DIR, f"{self.pid}.json"), "w") as fh:
            json.dump(ev, fh, indent=1, default=str)
        for k, f in sorted(self.known_hits.items()):
            print(f"KNOWN-FINDING: property={self.pid} {f['what']} [key={k}]")
        seen = {}
        for v in self.violations:
            seen[v["key"]] = seen.get(v["key"], 0) + 1
            if seen[v["key"]] > 2 or v["replay"] is None or len(seen) > 12:
                continue
            print(f"VIOLATION property={self.pid} replay={v['replay']} key={v['key']} :: {v['detail'][:400]}")
        if self.violations and not any(v["replay"] for v in self.violations):
            print(f"VIOLATION property={self.pid} replay=None key={self.violations[0]['key']}")
        if os.environ.get("VERIF_DUMP_KEYS"):
            with open(os.environ["VERIF_DUMP_KEYS"], "w") as fh:
                json.dump({k: [n, next(v["detail"] for v in self.violations if v["key"] == k)] for k, n in seen.items()}, fh, indent=1)
        for k, n in seen.items():
            if n > 2:
                print(f"  ... {n} violations with key={k}")
        print(f"[{self.pid}] tier={self.tier} seed={self.seed} states={self.states} transitions={self.transitions} "
              f"impl_traces={self.traces} violations={len(self.violations)} known={len(self.known_hits)} "
              f"wall={wall:.1f}s")
        return 1 if self.violations else 0


def main_wrapper(pid, fn, argv=None):
    import argparse
    ap = argparse.ArgumentParser()
    ap.add_argument("--tier", default=os.environ.get("VERIF_TIER", "quick"), choices=["quick", "thorough"])
    ap.add_argument("--seed", type=int, default=int(os.environ.get("VERIF_SEED", "0") or 0))
    ap.add_argument("--replay", default=None)
    a = ap.parse_args(argv)
    ctx = Ctx(pid, a.tier, a.seed, a.replay)
    try:
        fn(ctx)
        return ctx.finish(getattr(ctx, "level", "model_checking"))
    except Exception as e:  # machinery failure
        traceback.print_exc()
        print(f"[{pid}] MACHINERY FAILURE: {type(e).__name__}: {str(e)[:500]}", file=sys.stderr)
        return 2
