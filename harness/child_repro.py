"""Child interpreter for C07: runs one stochastic model (pub/sub fan-out, shared streams, distributions,
simulation statistics) under a given plan (prior activity, pilot replication, pause positions) and prints
its trace in the vocabulary of TraceDEVS.tla.  Everything process-dependent (hash seed, object ids, event
counters) may differ between children; the trace must not."""
import json
import math
import sys

import os
sys.path.insert(0, os.path.join(os.environ.get("VERIF_REPO", "/repo"), "src"))
sys.path.insert(0, sys.argv[3] if len(sys.argv) > 3 else "/verif")


def main():
    plan = json.load(open(sys.argv[1]))
    from harness import drive_devs as dd
    from harness import drive_simstats as ds
    from pydsol.core.pubsub import EventListener, EventProducer, EventType
    from pydsol.core.simevent import SimEvent
    from pydsol.core.streams import MersenneTwister, StreamSeedUpdater, StreamInformation
    from pydsol.core.distributions import DistExponential, DistNormal, DistUniform, DistTriangular
    from pydsol.core.interfaces import SimulatorInterface

    # ---- unrelated prior activity in this process
    junk = []

    class T:
        def m(self, **kw):
            pass
    t = T()
    for k in range(plan["prior_events"]):
        junk.append(SimEvent(float(k), t, "m"))

    def mk_types(n):
        return [EventType(f"JUNK_{i}") for i in range(n)]
    junk.append(mk_types(plan["prior_types"]))
    junk.append({f"s{i}" for i in range(plan["prior_strings"])})
    # an unrelated earlier study in this process used the default stream of its own StreamInformation
    other = StreamInformation()
    junk.append([other.get_stream("default").next_float() for _ in range(plan.get("prior_draws", 0))])
    FAN = EventType("VERIF_FANOUT")
    ps = []         # publish/subscribe trace of the fan-out producer (TracePubSub.tla vocabulary)
    eid = [0]
    model_cfg = plan["model"]
    end_t, warm_t, maxev = model_cfg["end_t"], model_cfg["warm_t"], model_cfg["maxev"]
    nlisteners = model_cfg["listeners"]

    class Reactor(EventListener):
        """subscribed to the fan-out event: draws from the shared stream and may ask for a new event"""

        def __init__(self, j, model):
            self.j, self.model = j, model

        def notify(self, event):
            m = self.model
            ps.append({"a": "Deliver", "l": self.j + 1, "eid": event.content, "ty": "T1", "ts": -1})
            try:
                self.react(event)
            finally:
                ps.append({"a": "Return", "l": self.j + 1, "eid": event.content})

        def react(self, event):
            m = self.model
            if self.j == 0:
                # a passive probe that unsubscribes itself the first time it is notified
                m.src.remove_listener(FAN, self)
                ps.append({"a": "Remove", "ty": "T1", "l": self.j + 1})
                return
            u = m.streams["main"].next_float()
            m.tally_values.append(u)
            if u < 0.45 and m.ctl.next_rank + len(m.pending_ops) < maxev:
                d = min(4, int(math.floor(m.dist_delay[self.j % len(m.dist_delay)].draw() * 2)))
                p = (1, 5, 10)[m.streams["prio"].next_int(0, 2)]
                m.pending_ops.append({"k": "rel", "a": max(0, d), "p": p})
            elif u > 0.93 and m.ctl.next_rank >= 2:
                m.pending_ops.append({"k": "cancel", "a": m.streams["prio"].next_int(1, m.ctl.next_rank), "p": 0})

    class Clock(EventListener):
        """a listener on TIME_CHANGED that consumes one random number per notification"""

        def __init__(self, model):
            self.model = model

        def notify(self, event):
            # consumes from the SHARED stream: a spurious notification shifts every later draw
            self.model.tc_draws.append(self.model.streams["main"].next_float())

    class ReproModel(ds.StatModel):
        def __init__(self, sim, ctl):
            super().__init__(sim, ctl)
            # the streams belong to the model and are re-seeded for every replication
            # (seed 0 is a seed like any other; "clock" is not in the seed table: the fallback updater serves it)
            self.streams = {"main": MersenneTwister(101), "prio": MersenneTwister(12), "clock": MersenneTwister(0)}
            self.updater = StreamSeedUpdater({"main": [101, 202], "prio": [303, 404]})

        def construct_model(self):
            self.updater.update_seeds(self.streams, model_cfg["replication_nr"])
            # the model's own stream information, new for every replication: its default stream is used as delivered (fixed documented seed)
            self.info = StreamInformation()
            s = self.streams["main"]
            self.dist_delay = [DistExponential(s, 0.8), DistUniform(s, 0.0, 2.5), DistTriangular(s, 0.0, 0.5, 2.0), DistNormal(self.streams["prio"], 1.0, 0.5)]
            self.pending_ops, self.tally_values, self.tc_draws = [], [], []
            super().construct_model()
            self.src.remove_all_listeners(FAN)
            ps.append({"a": "RemoveAll", "ty": "T1", "l": 0})
            self.reactors = [Reactor(j, self) for j in range(nlisteners + 1)]
            for r in self.reactors:
                self.src.add_listener(FAN, r)
                ps.append({"a": "Add", "ty": "T1", "l": r.j + 1})
            if model_cfg.get("tc_listener", True):
                self.simulator.add_listener(SimulatorInterface.TIME_CHANGED_EVENT, Clock(self))

        def h(self, k, tag=None):
            # observations are random: the statistics digest then compares every draw bit for bit
            u = self.streams["main"].next_float()
            self.src.fire(ds.ObsTypes.C, 1 + int(u * 3))
            self.src.fire(ds.ObsTypes.T, u + self.info.get_stream("default").next_float())
            self.src.fire(ds.ObsTypes.W, (float(int(u * 4)), u * 10))
            # the "clock" stream has no configured seed list: it is served by the fallback updater
            v = float(int(self.streams["clock"].next_float() * 5))
            if u > 0.45:       # the persistent is NOT observed at every event: a pause can then fall strictly inside an observation interval
                self.src.fire(ds.ObsTypes.P, v)
            self.ctl.on_handler(k)

    def prog_gen(rank, ctl):
        m = ctl.model
        m.pending_ops = []
        eid[0] += 1
        ps.append({"a": "Fire", "ty": "T1", "eid": eid[0], "ts": -1})
        m.src.fire(FAN, eid[0])
        ps.append({"a": "EndFire", "eid": eid[0]})
        ops, m.pending_ops = m.pending_ops, []
        return {"ops": ops, "raise": False}

    # (one event exactly at the replication end: executed by an inclusive run to the end, whatever pauses came before)
    init_ops = [{"k": "abs", "a": 0, "p": 5}, {"k": "rel", "a": 1, "p": 5}, {"k": "rel", "a": 1, "p": 10}, {"k": "now", "a": 0, "p": 1},
                {"k": "abs", "a": end_t, "p": 5}]
    ctl = dd.SimCtl(plan["conc"], end_t, warm_t, "pause", init_ops=init_ops, prog_gen=prog_gen, model_factory=ReproModel)
    out = {"errors": []}
    with dd.quiet():
        for rep in range(plan["pilot_replications"] + 1):
            ctl.prog = {}          # the program is stochastic: what handler k does is recorded afresh in every replication
            ctl.initialize()
            ctl.observe()
            for _ in range(plan["steps_first"]):
                ctl.step()
                ctl.observe()
            for b in plan.get("bounds", []):          # pauses made with bounded runs
                if ctl.sim.run_state.name == "ENDED":
                    break
                ctl.run_cmd("RunUpTo" if b[1] else "RunUpToIncl", b[0])
                ctl.observe()
            for pa in plan["pauses"]:
                if ctl.sim.run_state.name == "ENDED":
                    break
                ctl.run_cmd("Start", None, pa)
                ctl.errors = [x for x in ctl.errors if x != "pause point not reached"]
                ctl.observe()
            k = 0
            while ctl.sim.run_state.name != "ENDED" and k < 50 and not ctl.errors:
                ctl.run_cmd("Start")
                ctl.observe()
                k += 1
        out["tc_draws"] = len(ctl.model.tc_draws)
    out["errors"] = ctl.errors
    out["trace"] = dd.clean_trace(ctl.trace)
    out["pubsub"] = ps
    ctl.dispose()
    json.dump(out, sys.stdout)


if __name__ == "__main__":
    main()
