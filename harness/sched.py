"""Access-interposition scheduler for the two simulator threads (C04 overlap layer).

No source change: the harness
  * installs data descriptors for the shared fields (_run_state, _replication_state, _runflag, _finalized) on
    subclasses, so that every read / write first ANNOUNCES itself and blocks until the scheduler grants it;
  * substitutes pydsol.core.simulator.threading (Event -> IEvent announcing set / clear / wait), .time and
    .sleep (virtual clock: a one-second spin wait costs nothing and a timeout is a scheduling decision).
A schedule is a sequence of thread names; granting a thread lets it perform the announced access and run to
its next announcement.  The announced accesses are at the same time the trace of SimThreads.tla.
"""
from __future__ import annotations

import threading
import time as _realtime

import pydsol.core.simulator as simmod
from pydsol.core.simulator import DEVSSimulatorFloat, SimulatorWorkerThread, RunState, ReplicationState

_REAL_THREADING = threading


class Deadlock(Exception):
    pass


class Sched:
    gen = 0                       # scenario generation: threads of an earlier scenario never take part in a later one

    def __init__(self):
        Sched.gen += 1
        self.lock = _REAL_THREADING.Condition()
        self.pending = {}         # thread name -> description of the announced access (dict)
        self.granted = None
        self.names = {}           # thread ident -> name
        self.blocked = set()      # names blocked in Event.wait()
        self.done = set()
        self.active = False       # free-run when False (accesses are not intercepted)
        self.vtime = 1000.0       # per-thread virtual clocks (vt): a time-out of one thread's spin wait does not age the other's
        self.vt = {}
        self.log = []             # granted accesses in order
        self.timeout_next = set()

    # ------------------------------------------------------------------ called by managed threads
    def me(self):
        return self.names.get(_REAL_THREADING.get_ident())

    def point(self, kind, var=None, val=None):
        """announce an access and wait for the grant (no-op in free-run or for unmanaged threads)"""
        nm = self.me()
        if not self.active or nm is None:
            return
        gen, lock = Sched.gen, self.lock
        with lock:
            self.pending[nm] = {"t": nm, "k": kind, "v": var, "x": val}
            lock.notify_all()
            while self.granted != nm:
                lock.wait(10.0)
                if not self.active or gen != Sched.gen or lock is not self.lock:
                    return None           # released, or left over from an earlier scenario: run on freely
            if gen != Sched.gen or lock is not self.lock:
                return None
            self.granted = None
            d = self.pending.pop(nm, None)
            if d is not None:
                self.log.append(d)
            lock.notify_all()
            return d

    def block(self, nm):
        with self.lock:
            self.blocked.add(nm)
            self.lock.notify_all()

    def unblock(self, nm):
        with self.lock:
            self.blocked.discard(nm)
            self.lock.notify_all()

    def finish(self, nm):
        with self.lock:
            self.done.add(nm)
            self.pending.pop(nm, None)
            self.lock.notify_all()

    # ------------------------------------------------------------------ called by the scheduler (main thread)
    def settle(self, managed, timeout=30.0):      # (milliseconds in practice; generous because checks run under heavy machine load)
        """wait until every managed thread is at an announcement, blocked in wait(), or done"""
        t0 = _realtime.time()
        with self.lock:
            while True:
                idle = all((n in self.pending) or (n in self.blocked) or (n in self.done) for n in managed)
                if idle and self.granted is None:
                    return
                if _realtime.time() - t0 > timeout:
                    raise Deadlock(f"threads did not settle: pending={list(self.pending)} blocked={self.blocked} done={self.done}")
                self.lock.wait(0.05)

    def runnable(self, managed):
        with self.lock:
            return [n for n in managed if n in self.pending]

    def peek(self, nm):
        with self.lock:
            return dict(self.pending[nm]) if nm in self.pending else None

    def grant(self, nm, timeout_sleep=False):
        with self.lock:
            if nm not in self.pending:
                raise Deadlock(f"{nm} has nothing pending")
            if self.pending[nm]["k"] == "sleep":
                self.vt[nm] = self.vt.get(nm, self.vtime) + (2.0 if timeout_sleep else 0.001)
                self.pending[nm]["timeout"] = bool(timeout_sleep)
            self.granted = nm
            self.lock.notify_all()
            t0 = _realtime.time()
            while self.granted == nm:
                self.lock.wait(0.05)
                if _realtime.time() - t0 > 30.0:
                    raise Deadlock(f"{nm} did not take its grant")

    def release_all(self):
        with self.lock:
            self.active = False
            self.lock.notify_all()


SCHED = Sched()


# ---------------------------------------------------------------------- interposed primitives
class _Waiters(list):
    pass


class _Cond:
    def __init__(self):
        self._waiters = []


class IEvent:
    """threading.Event replacement that announces set / clear / wait"""

    def __init__(self):
        self._flag = False
        self._cond = _Cond()
        self._real = _REAL_THREADING.Condition()

    def is_set(self):
        return self._flag

    def set(self):
        SCHED.point("ev", "set")
        with self._real:
            self._flag = True
            if SCHED.active:
                for nm in list(self._cond._waiters):
                    SCHED.unblock(nm)       # the waiter is runnable again: settle() now waits for its "woke" announcement
            self._real.notify_all()

    def clear(self):
        SCHED.point("ev", "clear")
        with self._real:
            self._flag = False

    def wait(self, timeout=None):
        nm = SCHED.me()
        SCHED.point("ev", "wait")
        with self._real:
            if not self._flag:
                self._cond._waiters.append(nm or "x")
                if nm and SCHED.active:
                    SCHED.block(nm)
                while not self._flag:
                    self._real.wait(0.05)
                    if timeout is not None:
                        break
                self._cond._waiters.remove(nm or "x")
                if nm:
                    SCHED.unblock(nm)
        if nm and SCHED.active:
            SCHED.point("ev", "woke")
        return self._flag


class _ThreadingShim:
    Event = IEvent

    def __getattr__(self, name):
        return getattr(_REAL_THREADING, name)


class _TimeShim:
    @staticmethod
    def time():
        return SCHED.vt.get(SCHED.me(), SCHED.vtime) if SCHED.active and SCHED.me() else _realtime.time()

    @staticmethod
    def monotonic():              # (a maintainer may measure the one-second limits on the monotonic clock)
        return SCHED.vt.get(SCHED.me(), SCHED.vtime) if SCHED.active and SCHED.me() else _realtime.monotonic()

    @staticmethod
    def perf_counter():
        return SCHED.vt.get(SCHED.me(), SCHED.vtime) if SCHED.active and SCHED.me() else _realtime.perf_counter()

    def __getattr__(self, name):
        return getattr(_realtime, name)


def _vsleep(dt):
    if SCHED.active and SCHED.me():
        SCHED.point("sleep")
    else:
        _realtime.sleep(dt)


class _Shared:
    """data descriptor announcing reads and writes of one shared field"""

    def __init__(self, name, short):
        self.name, self.short, self.slot = name, short, "_i_" + name

    def __get__(self, obj, objtype=None):
        if obj is None:
            return self
        d = SCHED.point("R", self.short, None)
        v = obj.__dict__.get(self.slot)
        if d is not None:
            d["x"] = getattr(v, "name", v)      # the value actually read, after the grant
        return v

    def __set__(self, obj, value):
        SCHED.point("W", self.short, getattr(value, "name", value))
        obj.__dict__[self.slot] = value


class ISim(DEVSSimulatorFloat):
    _run_state = _Shared("_run_state", "rs")
    _replication_state = _Shared("_replication_state", "rep")
    _runflag = _Shared("_runflag", "runflag")


class IWorker(SimulatorWorkerThread):
    _finalized = _Shared("_finalized", "fin")

    def run(self):
        SCHED.names[_REAL_THREADING.get_ident()] = "w"
        try:
            super().run()
        finally:
            SCHED.finish("w")


_installed = False


def install():
    """swap the simulator module's threading / time / sleep / worker class (process-wide, idempotent)"""
    global _installed
    if _installed:
        return
    simmod.threading = _ThreadingShim()
    simmod.time = _TimeShim()
    simmod.sleep = _vsleep
    simmod.SimulatorWorkerThread = IWorker
    _installed = True


def uninstall():
    global _installed
    if not _installed:
        return
    simmod.threading = _REAL_THREADING
    simmod.time = _realtime
    simmod.sleep = _realtime.sleep
    simmod.SimulatorWorkerThread = SimulatorWorkerThread
    _installed = False
