"""Driver for ClockListeners.tla (C02 / C04): a model in which handlers AND TIME_CHANGED listeners schedule events.
Records Sched / TC / Exec events in the vocabulary of TraceClockListeners.tla (times as spec integers)."""
from __future__ import annotations

import threading
import time as _time

from pydsol.core.experiment import SingleReplication
from pydsol.core.interfaces import ReplicationInterface
from pydsol.core.model import DSOLModel
from pydsol.core.pubsub import EventListener
from pydsol.core.simulator import Simulator
from harness import drive_devs as dd


def _finish(sim, trace, errors):
    try:
        sim.cleanup()
    except Exception:
        pass
    return trace, errors


def run_model(conc_name, rng, end_t=6, maxev=14, step_mode=False):
    c = dd.Conc(conc_name)
    sim = c.sim("tcl")
    trace, errors = [], []
    rank = [0]

    def sched(by, kind, d, p, model):
        """schedule through the public API and record what time the event got"""
        try:
            if kind == "now":
                e = sim.schedule_event_now(model, "h", p, k=rank[0] + 1)
            else:
                e = sim.schedule_event_rel(c.t(d), model, "h", p, k=rank[0] + 1)
        except Exception as ex:
            errors.append(f"{by} scheduling ({kind}, {d}) raised {type(ex).__name__}: {ex}")
            return
        rank[0] += 1
        trace.append({"a": "Sched", "by": by, "d": 0 if kind == "now" else d, "p": p, "t": c.back(e.time), "id": rank[0]})

    class M(DSOLModel):
        def construct_model(self):
            for _ in range(rng.choice([2, 3, 4])):
                sched("init", "rel", rng.choice([0, 1, 2, 3]), rng.choice([1, 5]), self)

        def h(self, k):
            trace.append({"a": "Exec", "id": k, "clk": c.back(sim.simulator_time)})
            for _ in range(rng.choice([0, 0, 1, 2])):
                if rank[0] < maxev:
                    sched("handler", rng.choice(["now", "rel"]), rng.choice([0, 1, 2]), rng.choice([1, 5]), self)

    class L(EventListener):
        def __init__(self, model):
            self.model = model

        def notify(self, event):
            if event.event_type == Simulator.TIME_CHANGED_EVENT:
                trace.append({"a": "TC", "ts": c.back(event.timestamp)})
                if rank[0] < maxev and rng.random() < 0.6:
                    kind = rng.choice(["now", "rel"])
                    sched("listener", kind, 0 if kind == "now" else rng.choice([0, 1, 2]), rng.choice([1, 5]), self.model)
            elif event.event_type == ReplicationInterface.WARMUP_EVENT:
                trace.append({"a": "Exec", "id": warm[0], "clk": c.back(sim.simulator_time)})

    m = M(sim)
    warm = [0]
    with dd.quiet():
        sim.initialize(m, SingleReplication("r", c.at(0), c.t(0), c.t(end_t)))
        rank[0] += 1
        warm[0] = rank[0]
        trace.append({"a": "Sched", "by": "init", "d": 0, "p": 10, "t": 0, "id": warm[0]})      # the warm-up event the simulator schedules itself
        lst = L(m)
        sim.add_listener(Simulator.TIME_CHANGED_EVENT, lst)
        sim.add_listener(ReplicationInterface.WARMUP_EVENT, lst)
        if step_mode:
            # the events are executed one by one with step() on this thread (TIME_CHANGED is announced for every one of them)
            for _ in range(4 * maxev):
                try:
                    nxt = None if sim.eventlist().is_empty() else sim.eventlist().peek_first()
                    if nxt is None or c.back(nxt.time) > end_t or sim.run_state.name == "ENDED" or c.back(sim.simulator_time) >= end_t:
                        break           # (a simulator whose clock has reached the end refuses further steps)
                    sim.step()
                except Exception as ex:
                    errors.append(f"step() raised {type(ex).__name__}: {ex}")
                    break
                dd.wait_idle(sim)
            return _finish(sim, trace, errors)
        sim.start()
        _time.sleep(0.001)
        dd.wait_idle(sim)
        # (start() returns once the run loop has begun; the run thread ends the replication and finishes)
        t0 = _time.time()
        while sim.run_state.name != "ENDED" and _time.time() - t0 < 20:
            dd.wait_idle(sim)
            _time.sleep(0.001)
        if sim.run_state.name != "ENDED":
            errors.append(f"run did not end: {sim.run_state.name}")
        try:
            sim.cleanup()
        except Exception:
            pass
    return trace, errors


def run_segmented(conc_name, rng, end_t=6, warm_t=1, maxev=14):
    """Driver for RunListeners.tla: the run is cut into bounded segments; handlers and the listeners of START / TIME_CHANGED /
    WARMUP / STOP schedule and cancel events.  Vocabulary of TraceRunListeners.tla (ids: 1 = the simulator's own warm-up
    event, the others in scheduling order; times as spec integers)."""
    c = dd.Conc(conc_name)
    sim = c.sim("rl")
    trace, errors = [], []
    rank = [1]
    objs = {}
    cur = {"b": None, "inc": None, "step": False}

    def sched(by, kind, d, p, model):
        try:
            if kind == "now":
                e = sim.schedule_event_now(model, "h", p, k=rank[0] + 1)
            else:
                e = sim.schedule_event_rel(c.t(d), model, "h", p, k=rank[0] + 1)
        except Exception as ex:
            errors.append(f"{by} scheduling ({kind}, {d}) raised {type(ex).__name__}: {ex}")
            return
        rank[0] += 1
        objs[rank[0]] = e
        trace.append({"a": "Sched", "by": by, "d": 0 if kind == "now" else d, "p": p, "t": c.back(e.time), "id": rank[0]})

    def cancel():
        live = [i for i, e in objs.items() if sim.eventlist().contains(e)]
        if not live:
            return
        i = rng.choice(live)
        try:
            sim.cancel_event(objs[i])
        except Exception as ex:
            errors.append(f"listener cancelling event {i} raised {type(ex).__name__}: {ex}")
            return
        trace.append({"a": "Cancel", "id": i})

    class M(DSOLModel):
        def construct_model(self):
            for _ in range(rng.choice([1, 2, 3, 4])):
                sched("init", "rel", rng.choice([0, 1, 2, 3]), rng.choice([1, 5]), self)

        def h(self, k):
            trace.append({"a": "Exec", "id": k, "clk": c.back(sim.simulator_time)})
            for _ in range(rng.choice([0, 0, 1, 2])):
                if rank[0] < maxev:
                    sched("handler", rng.choice(["now", "rel"]), rng.choice([0, 1, 2]), rng.choice([1, 5]), self)

    class L(EventListener):
        def __init__(self, model):
            self.model = model

        def act(self, prob):
            if rng.random() < 0.25:
                cancel()
            if rank[0] < maxev and rng.random() < prob:
                kind = rng.choice(["now", "rel"])
                sched("listener", kind, 0 if kind == "now" else rng.choice([0, 1, 2]), rng.choice([1, 5]), self.model)

        def notify(self, event):
            ty = event.event_type
            if ty == Simulator.TIME_CHANGED_EVENT:
                trace.append({"a": "TC", "ts": c.back(event.timestamp)})
                self.act(0.4)
            elif ty == ReplicationInterface.WARMUP_EVENT:
                trace.append({"a": "Exec", "id": 1, "clk": c.back(sim.simulator_time)})
                if c.back(event.timestamp) != c.back(sim.simulator_time):
                    errors.append(f"WARMUP stamped {event.timestamp} at simulator time {sim.simulator_time}")
                self.act(0.6)
            elif ty == Simulator.START_EVENT:
                if cur["step"]:
                    trace.append({"a": "StepStart", "ts": c.back(event.timestamp)})
                else:
                    trace.append({"a": "Start", "ts": c.back(event.timestamp), "b": cur["b"], "inc": cur["inc"]})
                self.act(0.6)
            elif ty == Simulator.STOP_EVENT:
                trace.append({"a": "Stop", "ts": c.back(event.timestamp)})
                self.act(0.7)

    m = M(sim)
    with dd.quiet():
        sim.initialize(m, SingleReplication("r", c.at(0), c.t(warm_t), c.t(end_t)))
        lst = L(m)
        for ty in (Simulator.TIME_CHANGED_EVENT, ReplicationInterface.WARMUP_EVENT, Simulator.START_EVENT, Simulator.STOP_EVENT):
            sim.add_listener(ty, lst)
        for _ in range(4 * end_t + 8 + 2 * maxev):
            if sim.run_state.name == "ENDED":
                break
            now = c.back(sim.simulator_time)
            if now == dd.BAD or now > end_t:
                errors.append(f"simulator neither ended nor before the end: time {sim.simulator_time}, state {sim.run_state.name}")
                break
            if now == end_t:
                break       # a step() executed an event AT the end: STOPPED with the clock at the end, every further start / step is refused (RunListeners: no action enabled)
            r = rng.random()
            b = end_t if r < 0.2 else rng.randint(now, end_t)
            inc = rng.random() < 0.5
            cur["b"], cur["inc"], cur["step"] = b, inc, False
            try:
                if 0.2 <= r < 0.45:
                    cur["step"] = True
                    sim.step()
                elif r < 0.1:
                    cur["b"], cur["inc"] = end_t, True
                    sim.start()
                elif inc:
                    sim.run_up_to_including(c.at(b))
                else:
                    sim.run_up_to(c.at(b))
            except Exception as ex:
                errors.append(f"segment command (bound {b}, inclusive {inc}) at time {now} raised {type(ex).__name__}: {ex}")
                break
            if not dd.wait_idle(sim):
                errors.append("run thread did not come to rest")
                break
        else:
            errors.append("replication did not end within the command budget")
        try:
            sim.cleanup()
        except Exception:
            pass
    return trace, errors
