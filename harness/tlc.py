"""Run TLC on the specifications under /verif/specs and parse what it says.

Every invocation carries -fpmem 0.01 (the default fingerprint set costs ~15 s of page
zeroing in this sandbox), a private -metadir, -noGenerateSpecTE and an outer timeout.
"""
from __future__ import annotations

import glob
import os
import re
import shutil
import subprocess
import tempfile
import time
from dataclasses import dataclass, field

from . import tlaval

VERIF = os.path.dirname(os.path.dirname(os.path.abspath(__file__)))
SPECS = os.path.join(VERIF, "specs")


class MachineryError(Exception):
    """TLC crashed, timed out, or printed something we cannot interpret: exit 2."""


@dataclass
class TLCResult:
    stdout: str
    rc: int
    wall_s: float
    generated: int = 0
    distinct: int = 0
    depth: int = 0
    max_outdegree: int | None = None
    ok: bool = False
    violated: str | None = None      # name of invariant / property / "deadlock" / "assumption"
    violation_kind: str | None = None
    error_trace: list = field(default_factory=list)   # list of (action_label, state Rec)
    coverage: dict = field(default_factory=dict)      # action name -> (taken, distinct)
    prints: list = field(default_factory=list)        # parsed PrintT values (raw strings)
    cmd: str = ""


def scratch(prefix="pv_"):
    base = os.environ.get("VERIF_SCRATCH") or tempfile.gettempdir()
    return tempfile.mkdtemp(prefix=prefix, dir=base)


def stage_specs(dst, extra_files: dict[str, str] | None = None):
    """Copy specs/*.tla, *.cfg into dst (flat) and write generated modules."""
    os.makedirs(dst, exist_ok=True)
    for f in glob.glob(os.path.join(SPECS, "*")):
        if f.endswith((".tla", ".cfg")):
            shutil.copy(f, dst)
    for name, text in (extra_files or {}).items():
        with open(os.path.join(dst, name), "w") as fh:
            fh.write(text)
    return dst


_STATE_HDR = re.compile(r"^State (\d+): <(.*?)>\s*$|^State (\d+): (Stuttering)\s*$", re.M)


def _parse_error_trace(out: str):
    """Error trace blocks: 'State N: <Action line..>' followed by /\\ var = val lines."""
    trace = []
    parts = re.split(r"^State (\d+): ", out, flags=re.M)
    # parts: [pre, n1, body1, n2, body2...]
    for k in range(1, len(parts) - 1, 2):
        body = parts[k + 1]
        first, _, rest = body.partition("\n")
        label = first.strip()
        m = re.match(r"<(\w+)(\(.*?\))? line", label)
        act = (m.group(1) + (m.group(2) or "")) if m else label
        # state text ends at first blank line
        txt = rest.split("\n\n", 1)[0]
        try:
            st = tlaval.parse_state(txt)
        except tlaval.ParseError:
            st = tlaval.Rec(_raw=txt)
        trace.append((act, st))
    return trace


def parse_output(out: str, rc: int, wall: float, cmd: str) -> TLCResult:
    r = TLCResult(stdout=out, rc=rc, wall_s=wall, cmd=cmd)
    m = re.search(r"(\d+) states generated, (\d+) distinct states found", out)
    if m:
        r.generated, r.distinct = int(m.group(1)), int(m.group(2))
    else:
        m = re.search(r"The number of states generated: (\d+)", out)
        if m:
            r.generated = r.distinct = int(m.group(1))
    m = re.search(r"The depth of the complete state graph search is (\d+)", out)
    if m:
        r.depth = int(m.group(1))
    m = re.search(r"the maximum (\d+)", out)
    if m:
        r.max_outdegree = int(m.group(1))
    if "Model checking completed. No error has been found." in out or (
            "Running Random Simulation" in out and "Error:" not in out and rc == 0):
        r.ok = True
    m = re.search(r"Error: Invariant (\S+) is violated", out)
    if m:
        r.violated, r.violation_kind = m.group(1), "invariant"
    mc = re.search(r"Error: The invariant of (\S+) is equal to FALSE", out)
    if mc:
        r.violated, r.violation_kind = mc.group(1), "invariant"
    m2 = re.search(r"Error: Action property (\S+) is violated", out)
    if m2:
        r.violated, r.violation_kind = m2.group(1), "action_property"
    if "Error: Temporal properties were violated" in out:
        r.violated, r.violation_kind = r.violated or "temporal", "temporal"
    m3 = re.search(r"Error: Temporal property (\S+) was violated", out)
    if m3:
        r.violated, r.violation_kind = m3.group(1), "temporal"
    if "Error: Deadlock reached" in out:
        r.violated, r.violation_kind = "deadlock", "deadlock"
    m3 = re.search(r"Error: Assumption (.*?) is false", out)
    if m3:
        r.violated, r.violation_kind = "assumption", "assumption"
    if re.search(r"Error: The postcondition .* is violated|POSTCONDITION.*violated|Error: Postcondition", out, re.I):
        r.violated, r.violation_kind = r.violated or "postcondition", "postcondition"
    if r.violated:
        r.error_trace = _parse_error_trace(out)
    # coverage: "<Name line a, col b to line c, col d of module M>: x:y"
    for m in re.finditer(r"^<(\w+) line \d+, col \d+ to line \d+, col \d+ of module (\w+)(?: \((\d+) \d+ \d+ \d+\))?>: (\d+):(\d+)", out, re.M):
        name = m.group(1) + (("@" + m.group(3)) if m.group(3) else "")
        a, b = int(m.group(5)), int(m.group(4))  # TLC prints distinct:taken
        pa, pb = r.coverage.get(name, (0, 0))
        r.coverage[name] = (pa + a, pb + b)
    return r


def run(module: str, cfg: str | None = None, *, workdir: str | None = None,
        extra_files: dict[str, str] | None = None, workers: int | str = 1,
        args: list[str] | None = None, env: dict | None = None,
        timeout: int = 600, coverage: bool = False, java_opts: str | None = None,
        keep: bool = False, allow_fail: bool = True) -> TLCResult:
    """Run TLC on specs/<module>.tla with specs/<cfg>.  Returns TLCResult; raises
    MachineryError on crash/timeout/parse problems (not on property violations)."""
    own = workdir is None
    wd = workdir or scratch()
    try:
        stage_specs(wd, extra_files)
        md = os.path.join(wd, "_md")
        cmd = ["tlc", "-fpmem", "0.01", "-metadir", md, "-noGenerateSpecTE",
               "-workers", str(workers)]
        if cfg:
            cmd += ["-config", cfg]
        if coverage:
            cmd += ["-coverage", "1"]
        cmd += list(args or [])
        cmd += [module if module.endswith(".tla") else module + ".tla"]
        e = dict(os.environ)
        e.update(env or {})
        # the default heap (25% of 62 GB) costs minutes of sys time in page faults: cap it
        # (TLC creates an empty tlc-<n> directory in java.io.tmpdir at every start and leaves it there: keep it inside the scratch directory)
        jtmp = os.path.join(wd, "_jtmp")
        os.makedirs(jtmp, exist_ok=True)
        e["JAVA_TOOL_OPTIONS"] = (os.environ.get("VERIF_JAVA_OPTS", "-Xmx6g -Xms512m") + f" -Djava.io.tmpdir={jtmp} " + (java_opts or "")).strip()
        t0 = time.time()
        try:
            p = subprocess.run(cmd, cwd=wd, env=e, capture_output=True, text=True, timeout=timeout)
        except subprocess.TimeoutExpired:
            subprocess.run(["pkill", "-f", md], capture_output=True)
            raise MachineryError(f"TLC timeout after {timeout}s: {' '.join(cmd)}")
        wall = time.time() - t0
        out = p.stdout + p.stderr
        r = parse_output(out, p.returncode, wall, " ".join(cmd))
        if not r.ok and not r.violated:
            i = out.find("Error:")
            raise MachineryError("TLC failed without a property verdict:\n" + (out[i:i + 3000] if i >= 0 else out[-3000:]))
        return r
    finally:
        if own and not keep:
            shutil.rmtree(wd, ignore_errors=True)


# ---------------------------------------------------------------- behaviours

_SIM_HDR = re.compile(r"^\\\* <(\w+)(\((.*?)\))? line \d+", re.M)


def parse_sim_file(path: str):
    """One -simulate behaviour file -> list of (action, argstring|None, state Rec)."""
    txt = open(path).read()
    out = []
    blocks = re.split(r"^\\\* <", txt, flags=re.M)[1:]
    for b in blocks:
        hdr, _, rest = b.partition("\n")
        m = re.match(r"(\w+)(\((.*?)\))? line \d+", hdr)
        act, args = m.group(1), m.group(3)
        _, _, body = rest.partition("==")
        body = body.split("\n\n", 1)[0]
        body = body.split("=====", 1)[0]
        out.append((act, args, tlaval.parse_state(body)))
    return out


def simulate(module: str, cfg: str, *, num: int, depth: int, seed: int,
             extra_files=None, timeout=600, env=None):
    """Run tlc -simulate, return (list of behaviours, TLCResult).  behaviour = list of
    (action, args, state)."""
    wd = scratch()
    try:
        simdir = os.path.join(wd, "_sim")
        os.makedirs(simdir)
        r = run(module, cfg, workdir=wd, extra_files=extra_files, workers=1,
                args=["-simulate", f"file={simdir}/tr,num={num}", "-depth", str(depth),
                      "-seed", str(seed)], timeout=timeout, env=env)
        behs = []
        for f in sorted(glob.glob(simdir + "/tr_*"), key=lambda p: [int(x) for x in re.findall(r"\d+", os.path.basename(p))]):
            behs.append(parse_sim_file(f))
        return behs, r
    finally:
        shutil.rmtree(wd, ignore_errors=True)


def _unescape_dot(s: str) -> str:
    return s.replace("\\\\", "\x00").replace("\\n", "\n").replace('\\"', '"').replace("\x00", "\\")


def dump_graph(module: str, cfg: str, *, extra_files=None, timeout=600, workers=1, env=None):
    """Explore exhaustively with -dump dot,actionlabels; return (nodes, edges, init_ids, result)
    nodes: id -> state Rec; edges: list of (src, label, dst)."""
    wd = scratch()
    try:
        dot = os.path.join(wd, "_g.dot")
        r = run(module, cfg, workdir=wd, extra_files=extra_files, workers=workers,
                args=["-dump", "dot,actionlabels", dot], timeout=timeout, env=env)
        nodes, edges, inits = {}, [], []
        node_re = re.compile(r'^(-?\d+) \[label="(.*?)"(,style = filled)?(,tooltip=".*")?\]\s*;?$')
        edge_re = re.compile(r'^(-?\d+) -> (-?\d+) \[label="(.*?)",')
        with open(dot) as fh:
            for line in fh:
                line = line.rstrip("\n")
                m = edge_re.match(line)
                if m:
                    edges.append((m.group(1), _unescape_dot(m.group(3)), m.group(2)))
                    continue
                m = node_re.match(line)
                if m:
                    nid = m.group(1)
                    if nid not in nodes:
                        nodes[nid] = tlaval.parse_state(_unescape_dot(m.group(2)))
                    if m.group(3):
                        inits.append(nid)
        return nodes, edges, inits, r
    finally:
        shutil.rmtree(wd, ignore_errors=True)


def sany(path: str) -> tuple[bool, str]:
    p = subprocess.run(["tla-sany", os.path.basename(path)], cwd=os.path.dirname(path),
                       capture_output=True, text=True, timeout=120)
    out = p.stdout + p.stderr
    ok = p.returncode == 0 and "Fatal errors" not in out and "*** Errors" not in out and "Semantic errors" not in out
    return ok, out


def mc_files(name: str, base: str, consts: dict, *, invariants=(), properties=(), level=None,
             spec="Spec", view=None, extra_defs: str = "", constraints=()):
    """Generate (files dict, module name, cfg name) for a model: constants are given as TLA+
    expressions and bound with '<-' to definitions in a generated module (the cfg syntax
    cannot express negative numbers or sets of records)."""
    defs = []
    cfgc = []
    for k, v in consts.items():
        defs.append(f"c_{k} == {v}")
        cfgc.append(f"  {k} <- c_{k}")
    cons = list(constraints)
    if level is not None:
        defs.append(f"LevelBound == TLCGet(\"level\") <= {level}")
        cons.append("LevelBound")
    mod = f"---- MODULE {name} ----\nEXTENDS {base}, TLC\n" + "\n".join(defs) + "\n" + extra_defs + "\n====\n"
    cfg = [f"SPECIFICATION {spec}", "CONSTANTS"] + cfgc
    cfg += [f"CONSTRAINT {c}" for c in cons]
    cfg += [f"INVARIANT {i}" for i in invariants]
    cfg += [f"PROPERTY {p}" for p in properties]
    if view:
        cfg.append(f"VIEW {view}")
    cfg.append("CHECK_DEADLOCK FALSE")
    return {f"{name}.tla": mod, f"{name}.cfg": "\n".join(cfg) + "\n"}, name, f"{name}.cfg"


def tla_set(xs):
    return "{" + ", ".join(tla_lit(x) for x in xs) + "}"


def tla_lit(x):
    if isinstance(x, bool):
        return "TRUE" if x else "FALSE"
    if isinstance(x, int):
        return str(x) if x >= 0 else f"(0 - {-x})"
    if isinstance(x, str):
        return '"' + x + '"'
    if isinstance(x, (list, tuple)):
        return "<<" + ", ".join(tla_lit(y) for y in x) + ">>"
    if isinstance(x, (set, frozenset)):
        return tla_set(sorted(x, key=repr))
    raise TypeError(x)
