"""Driver / projection for the event list (C01).

Spec ids are creation ranks 1..n; spec times are small integers k, concretised as
  int:    k            float:  k/4          dur:   Duration(k/4,'s')
  mixed:  Duration(15k,'s') / Duration(k/4,'min') alternately (equal SI, different unit)
"""
from __future__ import annotations

CONCS = ("int", "float", "dur", "mixed", "near", "bigint", "hugeint", "subclass")


class _Target:
    def m(self, **kw):
        pass


def make_time(k: int, conc: str, n: int = 0):
    if conc == "int":
        return int(k)
    if conc == "float":
        return k / 4.0
    if conc == "near":      # distinct times that differ by ~1e-10 relative (exact dyadics)
        return 1.0e7 + k * 2.0 ** -10
    if conc == "bigint":
        return 10 ** 15 + int(k)
    if conc == "hugeint":       # int times beyond 2^53: distinct ints that round to the same double
        return 2 ** 60 + int(k)
    if conc == "subclass":
        return k / 4.0
    from pydsol.core.units import Duration
    if conc == "dur":
        return Duration(k / 4.0, "s")
    if conc == "mixed":
        return Duration(15.0 * k, "s") if n % 2 == 0 else Duration(k / 4.0, "min")
    raise ValueError(conc)


_UEC = None


def _user_event_class():
    global _UEC
    if _UEC is None:
        from pydsol.core.simevent import SimEvent

        class TaggedEvent(SimEvent):
            """what a user model may do: its own event class"""
        _UEC = TaggedEvent
    return _UEC


class ELDriver:
    """Wraps a real EventListHeap; ops are (name, arg...) in spec vocabulary; results are
    returned in spec vocabulary (ids as ranks, booleans as 0/1, None as 0)."""

    def __init__(self, conc="float", factory=None):
        from pydsol.core.eventlist import EventListHeap
        self.conc = conc
        self.factory = factory or EventListHeap
        self.el = self.factory()
        self.events = []          # rank-1 -> SimEvent
        self.keys = []            # rank-1 -> (k, p)
        self.history = []         # mutating ops only, for replayed copies
        self.tgt = _Target()

    def rank(self, ev):
        if ev is None:
            return 0
        for i, e in enumerate(self.events):
            if e is ev:
                return i + 1
        return -1

    def _new_event(self, k, p):
        from pydsol.core.simevent import SimEvent
        cls = SimEvent
        if self.conc == "subclass" and len(self.events) % 2 == 1:
            cls = _user_event_class()      # a user subclass of SimEvent, interleaved with plain events: ids stay unique and increasing
        return cls(make_time(k, self.conc, len(self.events)), self.tgt, "m", p)

    def apply(self, name, *a, record=True):
        el = self.el
        if name == "Create":
            k, p = a
            self.events.append(self._new_event(k, p))
            self.keys.append((k, p))
            ret = 0
        elif name == "Add":
            el.add(self.events[a[0] - 1]); ret = 0
        elif name == "Remove":
            ret = 1 if el.remove(self.events[a[0] - 1]) else 0
        elif name == "PopFirst":
            ret = self.rank(el.pop_first())
        elif name == "PeekFirst":
            ret = self.rank(el.peek_first())
        elif name == "Contains":
            ret = 1 if el.contains(self.events[a[0] - 1]) else 0
        elif name == "Size":
            ret = el.size()
        elif name == "IsEmpty":
            ret = 1 if el.is_empty() else 0
        elif name == "Clear":
            el.clear(); ret = 0
        else:
            raise ValueError(name)
        if record and name in ("Add", "Remove", "PopFirst", "Clear"):
            self.history.append((name,) + tuple(a))
        return ret

    # ---------------------------------------------------------------- observations
    def drain_copy(self):
        """Replay the mutating history on a fresh list (same event objects) and drain it."""
        cp = self.factory()
        for h in self.history:
            n = h[0]
            if n == "Add":
                cp.add(self.events[h[1] - 1])
            elif n == "Remove":
                cp.remove(self.events[h[1] - 1])
            elif n == "PopFirst":
                cp.pop_first()
            elif n == "Clear":
                cp.clear()
        out = []
        guard = len(self.events) + 2
        while not cp.is_empty() and guard > 0:
            out.append(self.rank(cp.pop_first()))
            guard -= 1
        return out

    def membership(self):
        return [i + 1 for i, e in enumerate(self.events) if self.el.contains(e)]

    def layout(self):
        """Private array projected to ranks, or None if the layout is not a list of
        (time, -prio, id, event) tuples (binding diverged, decides nothing)."""
        try:
            raw = self.el._event_list
            return [self.rank(t[3]) for t in raw]
        except Exception:
            return None

    def cmp_ops(self, x, y):
        a, b = self.events[x - 1], self.events[y - 1]
        f = lambda v: 1 if v else 0
        return {"lt": f(a < b), "le": f(a <= b), "gt": f(a > b), "ge": f(a >= b),
                "eq": f(a == b), "ne": f(a != b)}
