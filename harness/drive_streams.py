"""Driver for random streams (C12).  Seeds travel as decimal strings (they exceed 2^31)."""
from __future__ import annotations

import math
from fractions import Fraction

from pydsol.core.streams import MersenneTwister

SEED_POOL = [0, 1, -1, -5, 5, 2 ** 31, 2 ** 64 + 3, 10 ** 30, 101]
RANGES = [(0, 9), (3, 3), (-5, -3), (-4, 4), (-7, -7), (0, 0), (1, 6), (-(2 ** 40), 2 ** 40), (2 ** 53 - 3, 2 ** 53 + 3),
          (0, 2 ** 64), (-(10 ** 30), 10 ** 30), (2 ** 60 + 1, 2 ** 60 + 3), (-1, 0), (-3, 100)]
PEEK = 9    # slot reserved for the harness's peek (save / float / restore)


def fl(x):
    return float(x).hex()


class StreamsDriver:
    def __init__(self, factory=MersenneTwister):
        self.factory = factory
        self.s = {}
        self.tokens = {}
        self.tr = []

    def rec(self, e):
        self.tr.append(e)
        return e

    def new(self, name, sd):
        self.s[name] = self.factory(sd)
        self.rec({"a": "New", "s": name, "sd": str(sd)})

    def peek(self, name):
        st = self.s[name]
        tok = st.save_state()
        self.rec({"a": "Save", "s": name, "k": PEEK})
        u = st.next_float()
        self.rec(self._draw_event(name, "float", u, u))
        st.restore_state(tok)
        self.rec({"a": "Restore", "s": name, "k": PEEK})
        return u

    @staticmethod
    def _draw_event(name, kind, u, res, lo=None, hi=None):
        e = {"a": "Draw", "s": name, "kind": kind, "u": fl(u)}
        if kind == "float":
            e["in_range"] = 1 if (isinstance(res, float) and 0.0 <= res < 1.0) else 0
            e["derived_ok"] = 1
            e["res"] = fl(res) if isinstance(res, float) else repr(res)
        elif kind == "bool":
            e["in_range"] = 1 if isinstance(res, bool) else 0
            e["derived_ok"] = 1 if res == (u < 0.5) else 0
            e["res"] = str(res)
        else:
            w = hi - lo + 1
            e["lo"], e["hi"], e["res"] = str(lo), str(hi), str(res)
            e["in_range"] = 1 if (isinstance(res, int) and lo <= res <= hi) else 0
            exact = lo + math.floor(Fraction(w) * Fraction(u))
            try:
                flt = lo + math.floor(w * u)
            except OverflowError:
                flt = None
            e["derived_ok"] = 1 if res in (exact, flt) else 0
        return e

    def draw(self, name, kind, lo=None, hi=None):
        st = self.s[name]
        if kind == "float":
            u = st.next_float()
            return self.rec(self._draw_event(name, kind, u, u))
        u = self.peek(name)
        if kind == "bool":
            res = st.next_bool()
        else:
            res = st.next_int(lo, hi)
        return self.rec(self._draw_event(name, kind, u, res, lo, hi))

    def set_seed(self, name, sd):
        self.s[name].set_seed(sd)
        self.rec({"a": "SetSeed", "s": name, "sd": str(sd)})

    def reset(self, name):
        self.s[name].reset()
        self.rec({"a": "Reset", "s": name})

    def save(self, name, k):
        self.tokens[k] = self.s[name].save_state()
        self.rec({"a": "Save", "s": name, "k": k})

    def restore(self, name, k):
        self.s[name].restore_state(self.tokens[k])
        self.rec({"a": "Restore", "s": name, "k": k})

    def query(self, name):
        st = self.s[name]
        self.rec({"a": "Query", "s": name, "seed": str(st.seed()), "orig": str(st.original_seed())})
