"""Child interpreter for C13: runs a fixed list of seed-update configurations and prints one JSON
event per update.  Started with different PYTHONHASHSEED values by the check."""
import json
import sys

import os
sys.path.insert(0, os.path.join(os.environ.get("VERIF_REPO", "/repo"), "src"))


def main():
    from pydsol.core.streams import MersenneTwister, SimpleStreamUpdater, StreamSeedUpdater, StreamUpdater

    class Custom(StreamUpdater):
        """user-written fallback: seed = 7 * original + 13 * r + len(name)"""

        def update_seed(self, key, stream, replication_nr):
            stream.set_seed(7 * stream.original_seed() + 13 * replication_nr + len(key))

    shared = SimpleStreamUpdater()        # one object for the whole process: what it served before must not matter
    cfgs = json.load(open(sys.argv[1]))
    child = sys.argv[2]
    out = []
    for c in cfgs:
        names = c["names"]                        # listing order of the stream dict for this call
        origs = {n: int(s) for n, s in c["origs"].items()}
        table = {n: [int(x) for x in v] for n, v in c["table"].items()}
        streams = {n: MersenneTwister(origs[n]) for n in names}
        table2 = {n: [int(x) for x in v] for n, v in c.get("table2", {}).items()}
        if c["u"] == "simple":
            upd = SimpleStreamUpdater()
        elif c["u"] == "shared":
            upd = shared
        else:
            upd = StreamSeedUpdater(dict(table))
            if c["u"] == "chained":
                upd.set_fallback_stream_updater(StreamSeedUpdater(dict(table2)))
            elif c["u"] == "custom":
                upd.set_fallback_stream_updater(Custom())
        r = {"negative": -1, "first": 0, "inside": 1, "last": 2, "beyond": 3, "far": 10 ** 6, "illtyped": 1.5}[c["rc"]]
        for n in names:
            st = streams[n]
            # advance a little so that "unchanged" is observable through the draws as well
            st.next_float()
            before_seed = str(st.seed())
            tok = st.save_state()
            peek = [st.next_float().hex(), st.next_float().hex()]
            st.restore_state(tok)
            try:
                if c["bulk"]:
                    # update_seeds on a dict with only this stream's peers listed in `names` order
                    upd.update_seed(n, st, r)
                else:
                    upd.update_seed(n, st, r)
                res = "ok"
            except (ValueError, TypeError):
                res = "error"
            except Exception as ex:
                res = type(ex).__name__
            after = [st.next_float().hex(), st.next_float().hex()]
            tabled = c["u"] in ("table", "chained", "custom")
            if tabled and n in table:
                listed = "listed" if table[n] else "empty"
                src = table[n]
            elif c["u"] == "chained" and n in table2:
                listed, src = "fb_listed", table2[n]
            else:
                listed, src = "unlisted", None
            if src is not None:
                want = str(src[r]) if (isinstance(r, int) and 0 <= r < len(src)) else ""
            elif c["u"] == "custom" and isinstance(r, int) and r >= 0:
                want = str(7 * origs[n] + 13 * r + len(n))
            else:
                want = ""
            out.append({"a": "Update", "child": child, "u": c["u"], "l": listed, "rc": c["rc"], "name": n, "orig": str(origs[n]),
                        "r": str(r), "res": res, "seed_before": before_seed, "seed_after": str(st.seed()),
                        "draws_before_peek": "|".join(peek), "draws_after": "|".join(after), "want_from_list": want})
            # HISTORY: the same stream object is updated again for another replication: the result is the same function of
            # (name, original seed, r) as for a fresh stream, whatever was done to the stream before
            if res == "ok" and c.get("again"):
                rc2 = c["again"]
                r2 = {"first": 0, "inside": 1, "last": 2}[rc2]
                before2 = str(st.seed())
                try:
                    upd.update_seed(n, st, r2)
                    res2 = "ok"
                except (ValueError, TypeError):
                    res2 = "error"
                except Exception as ex:
                    res2 = type(ex).__name__
                after2 = [st.next_float().hex(), st.next_float().hex()]
                want2 = str(src[r2]) if src is not None and 0 <= r2 < len(src) else (str(7 * origs[n] + 13 * r2 + len(n)) if c["u"] == "custom" and src is None else "")
                out.append({"a": "Update", "child": child, "u": c["u"], "l": listed, "rc": rc2, "name": n, "orig": str(origs[n]),
                            "r": str(r2), "res": res2, "seed_before": before2, "seed_after": str(st.seed()),
                            "draws_before_peek": "", "draws_after": "|".join(after2), "want_from_list": want2})
        if c["bulk"]:
            # the bulk entry point on fresh streams must give the same seeds as the per-stream calls
            fresh = {n: MersenneTwister(origs[n]) for n in names}
            for a, b in c.get("alias", []):          # one stream object registered under two names
                if a in fresh and b in fresh:
                    fresh[b] = fresh[a]
            try:
                upd.update_seeds(fresh, r)
                bulk = {n: str(s.seed()) for n, s in fresh.items()}
                if not c.get("alias"):
                    # the bulk entry point gives every stream the seed the per-stream function gives it (whatever the other
                    # streams of the set are, and in whatever order they are listed): same memo as the single updates
                    for n, s in fresh.items():
                        tabled = c["u"] in ("table", "chained", "custom")
                        if tabled and n in table:
                            l2, src2 = ("listed" if table[n] else "empty"), table[n]
                        elif c["u"] == "chained" and n in table2:
                            l2, src2 = "fb_listed", table2[n]
                        else:
                            l2, src2 = "unlisted", None
                        w2 = str(src2[r]) if src2 is not None and 0 <= r < len(src2) else (str(7 * origs[n] + 13 * r + len(n)) if c["u"] == "custom" and src2 is None else "")
                        out.append({"a": "Update", "child": child, "u": c["u"], "l": l2, "rc": c["rc"], "name": n, "orig": str(origs[n]),
                                    "r": str(r), "res": "ok", "seed_before": str(origs[n]), "seed_after": str(s.seed()),
                                    "draws_before_peek": "", "draws_after": "|".join([s.next_float().hex(), s.next_float().hex()]), "want_from_list": w2})
            except Exception as ex:
                # a refusal half-way: which streams were already re-seeded must not depend on the process
                bulk = {n: str(s.seed()) for n, s in fresh.items()} if c.get("fixed_order") else {}
                bulk["error"] = type(ex).__name__
            out.append({"a": "Bulk", "child": child, "cfg": c["id"], "seeds": json.dumps(bulk, sort_keys=True)})
    json.dump(out, sys.stdout)


if __name__ == "__main__":
    main()
