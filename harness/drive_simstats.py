"""A replay model that creates the four simulation statistics in construct_model (as the
documentation instructs) and makes one observation of each per executed handler.  Used by C06
(isolation of replications), C07 (reproducibility) and C11 (warm-up / end semantics)."""
from __future__ import annotations

import math

from pydsol.core.pubsub import EventProducer, EventType
from pydsol.core.statistics import SimCounter, SimTally, SimWeightedTally, SimPersistent
from harness import drive_devs as dd


class ObsTypes:
    C = EventType("VERIF_OBS_C")
    T = EventType("VERIF_OBS_T")
    W = EventType("VERIF_OBS_W")
    P = EventType("VERIF_OBS_P")


def fhex(x):
    try:
        if isinstance(x, tuple):
            return [fhex(v) for v in x]
        if isinstance(x, bool) or isinstance(x, int):
            return str(int(x))
        x = float(x)
        return "nan" if math.isnan(x) else x.hex()
    except Exception as ex:       # a getter that raises is reported, not hidden
        return "ERR:" + type(ex).__name__


def safe(fn, *a):
    try:
        return fhex(fn(*a))
    except Exception as ex:
        return "ERR:" + type(ex).__name__


def getters(stat, kind):
    if kind == "C":
        return {"count": safe(stat.count), "n": safe(stat.n)}
    if kind == "T":
        d = {g: safe(getattr(stat, g)) for g in ("n", "min", "max", "sum", "mean", "variance", "stdev", "skewness", "kurtosis", "excess_kurtosis")}
        for g in ("variance", "stdev", "skewness", "kurtosis", "excess_kurtosis"):
            d[g + "_s"] = safe(getattr(stat, g), False)
        d["ci"] = safe(stat.confidence_interval, 0.05)
        return d
    d = {g: safe(getattr(stat, g)) for g in ("n", "min", "max", "weighted_sum", "weighted_mean", "weighted_variance", "weighted_stdev")}
    d["weighted_variance_s"] = safe(stat.weighted_variance, False)
    d["weighted_stdev_s"] = safe(stat.weighted_stdev, False)
    return d


def values_for(rank, clk):
    """observation values of the handler with creation rank `rank` (small integers: exact in TLC)"""
    return {"C": 1 + rank % 3, "T": (rank * 7) % 5, "W": (rank % 3, (rank * 5) % 4), "P": rank % 4}


class StatModel(dd._Model):
    def __init__(self, sim, ctl):
        super().__init__(sim, ctl)
        self.src = EventProducer()
        self.stats = {}
        self.construct_error = None

    def construct_model(self):
        sim = self.simulator
        self.src.remove_all_listeners()
        try:
            self.stats = {
                "C": SimCounter("stat.C", "counter", sim, producer=self.src, event_type=ObsTypes.C),
                "T": SimTally("stat.T", "tally", sim, producer=self.src, event_type=ObsTypes.T),
                "W": SimWeightedTally("stat.W", "wtally", sim, producer=self.src, event_type=ObsTypes.W),
                "P": SimPersistent("stat.P", "persistent", sim, producer=self.src, event_type=ObsTypes.P),
            }
        except Exception as ex:
            self.construct_error = f"{type(ex).__name__}: {ex}"
            raise
        self.ctl.on_construct()

    def h(self, k, tag=None):
        clk = self.ctl.conc.back(self.simulator.simulator_time)
        v = values_for(k, clk)
        self.ctl.obs.append((k, clk, v))
        self.src.fire(ObsTypes.C, v["C"])
        self.src.fire(ObsTypes.T, v["T"])
        self.src.fire(ObsTypes.W, (float(v["W"][0]), float(v["W"][1])))
        self.src.fire(ObsTypes.P, v["P"])
        self.ctl.on_handler(k)

    def digest(self):
        return {k: getters(s, k if k in ("C", "T") else "W") for k, s in self.stats.items()}

    def registry_ok(self):
        try:
            return all(self.get_output_statistic("stat." + k) is s for k, s in self.stats.items())
        except Exception:
            return False


def make_ctl(conc, end_t, warm_t, strategy="pause", **kw):
    ctl = dd.SimCtl(conc, end_t, warm_t, strategy, model_factory=StatModel, **kw)
    ctl.obs = []
    return ctl
