"""Edge cover of a dumped TLC state graph: a list of paths from an initial state such
that every edge of the graph lies on at least one path (one implementation test per
transition)."""
from __future__ import annotations

from collections import defaultdict, deque


def _canon(nodes):
    """a key per node that depends on the STATE only (TLC's node ids and the order of its dump vary from run to run)"""
    import json
    return {u: json.dumps(st, sort_keys=True, default=str) for u, st in nodes.items()}


def edge_cover(nodes, edges, inits, max_len=None):
    canon = _canon(nodes)
    order = sorted(range(len(edges)), key=lambda k: (canon.get(edges[k][0], str(edges[k][0])), str(edges[k][1]), canon.get(edges[k][2], str(edges[k][2]))))
    inits = sorted(inits, key=lambda i: canon.get(i, str(i)))
    out = defaultdict(list)
    for k in order:
        out[edges[k][0]].append(k)
    # BFS tree for shortest path to each node
    parent = {}
    dq = deque()
    for i in inits:
        parent[i] = None
        dq.append(i)
    while dq:
        u = dq.popleft()
        for k in out[u]:
            v = edges[k][2]
            if v not in parent:
                parent[v] = k
                dq.append(v)

    def path_to(u):
        p = []
        while parent[u] is not None:
            k = parent[u]
            p.append(k)
            u = edges[k][0]
        p.reverse()
        return p

    covered = [False] * len(edges)
    paths = []
    for k0 in order:
        if covered[k0] or edges[k0][0] not in parent:
            continue
        p = path_to(edges[k0][0]) + [k0]
        for k in p:
            covered[k] = True
        # extend greedily along uncovered edges
        u = edges[k0][2]
        while max_len is None or len(p) < max_len:
            nxt = next((k for k in out[u] if not covered[k]), None)
            if nxt is None:
                break
            covered[nxt] = True
            p.append(nxt)
            u = edges[nxt][2]
        paths.append(p)
    return paths, sum(covered)
