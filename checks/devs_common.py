"""Shared machinery of the checks that are decided with DEVS.tla (C02 C03 C04a C05 C06)."""
from __future__ import annotations

import json

from harness import tlc, traces
from harness.core import Ctx
from harness.tlc import tla_set as S
from harness import drive_devs as dd
from harness.tlaval import fn_to_seq

DEVS_INVS = ["ExactlyOnce", "ClockIsEventTime", "ExecutedMonotone", "NeverBeyondEnd", "AgreesWithReference",
             "Resumable", "PendingNotInPast", "StartReplFirstOnce", "StartStopAlternate", "EndReplLastOnce",
             "WarmupOnce", "TimeChangedMonotone", "EndedIsFinal"]
TRACE_INVS = ["InvExactlyOnce", "InvClockIsEventTime", "InvExecutedMonotone", "InvNeverBeyondEnd",
              "InvAgreesWithReference", "InvStartReplFirstOnce", "InvStartStopAlternate", "InvEndReplLastOnce",
              "InvWarmupOnce", "InvTimeChangedMonotone", "InvEndedIsFinal"]
ALL_CMDS = ["Start", "Step", "RunUpTo", "Stop", "Pause", "EndReplication", "Cleanup"]


def consts(**kw):
    c = dict(MaxId=4, EndT=3, WarmT=1, Prios=[1, 5], RelDelays=[-1, 0, 2], AbsTimes=[], BadKinds=["nan_abs"],
             MaxOps=1, Strategy="pause", Bounds=[1, 3], MaxInits=1, AllowFaults=False, StratOps=[], HStopOps=False, EndRepOps=False, MaxCmds=3, Cmds=["Start"])
    c.update(kw)
    return c


def tla_consts(c):
    out = {}
    for k, v in c.items():
        if isinstance(v, (list, set, tuple)):
            out[k] = S(list(v))
        else:
            out[k] = tlc.tla_lit(v)
    return out


def model_check(ctx: Ctx, label, c, *, level=80, workers=16, timeout=1800, need_actions=(), invs=DEVS_INVS):
    files, mod, cfg = tlc.mc_files("MC_DEVS_gen", "DEVS", tla_consts(c), invariants=invs,
                                   properties=["ClockMonotone"], level=level)
    r = tlc.run(mod, cfg, extra_files=files, workers=workers, coverage=bool(need_actions), timeout=timeout)
    ctx.add_tlc(label, r)
    if not r.ok:
        raise tlc.MachineryError(f"DEVS.tla ({label}) violates {r.violated}: specification inconsistent\n" +
                                 "\n".join(f"{a} {dict(s).get('op')}" for a, s in r.error_trace[-12:]))
    for a in need_actions:
        if r.coverage.get(a, (0, 0))[0] == 0:
            raise tlc.MachineryError(f"vacuity: action {a} never taken in {label}")
    return r


def simulate(ctx: Ctx, label, c, *, num, depth, seed, shards=None, init_first=True):
    """-simulate in parallel shards (TLC simulation is single-threaded per process).  init_first: the first command of a
    behaviour is an accepted initialize (otherwise almost half of the random behaviours spend their command budget on
    refusals of an uninitialised simulator; C04 keeps both kinds)."""
    from concurrent.futures import ThreadPoolExecutor
    files, mod, cfg = tlc.mc_files("MC_DEVS_sim", "DEVS", tla_consts(c), invariants=["NeverBeyondEnd"], level=depth + 5,
                                   extra_defs="InitFirstC == ncmd = 0 \\/ nrep >= 1" if init_first else "",
                                   constraints=["InitFirstC"] if init_first else [])
    shards = shards or max(1, min(8, num // 15))
    per = (num + shards - 1) // shards

    def one(k):
        return tlc.simulate(mod, cfg, num=per, depth=depth, seed=seed * 1000 + k, extra_files=files, timeout=1800)
    with ThreadPoolExecutor(max_workers=shards) as ex:
        results = list(ex.map(one, range(shards)))
    behs = []
    for k, (b, r) in enumerate(results):
        behs.extend(b)
        ctx.add_tlc(f"{label} -simulate shard {k}", r)
    if len(behs) < num // 2:
        raise tlc.MachineryError(f"vacuity: only {len(behs)} behaviours for {label}")
    return behs


# ----------------------------------------------------------------------------- S -> C

def err_key(errors):
    e = errors[0]
    for k in ("exec_unexpected", "reinit_accepted", "initial_method_skipped", "listener_cmd_accepted", "stale_component", "registry_shared"):
        if e.startswith(k):
            return k
    return "harness|" + e.split()[0]


def _ops(v):
    return [{"k": str(o["k"]), "a": o["a"], "p": o["p"]} for o in fn_to_seq(v)] if v else []


def _prog(v):
    v = fn_to_seq(v)
    if isinstance(v, tuple):
        v = {i + 1: h for i, h in enumerate(v)}
    return {int(k): {"ops": _ops(h["ops"]), "raise": bool(h["raise"])} for k, h in (v or {}).items()}


def _quiet(st):
    return st["rs"] != "STARTED" and len(st["due"]) == 0 and st["mode"] == "none"


def replay(ctx: Ctx, beh, conc, c, origin, model_factory=None, observer=None, setup=None):
    """Replay one DEVS.tla behaviour on a real simulator.  Returns the recorded trace
    (also usable for C->S validation), or None if nothing was executed."""
    states = [st for _, _, st in beh]
    final = states[-1]
    ctl = dd.SimCtl(conc, c["EndT"], c["WarmT"], c["Strategy"], prog=_prog(final["prog"]),
                    init_ops=_ops(final["initOps"]) if final["initOps"] and fn_to_seq(final["initOps"])[0]["k"] != "unset" else [],
                    model_factory=model_factory)
    if setup:
        setup(ctl)
    case = {"origin": origin, "conc": conc, "consts": c, "ops": [dict(s["op"]) for s in states[1:]],
            "prog": _prog(final["prog"]), "init_ops": ctl.init_ops}

    def bad(key, detail):
        ctx.violation(key, f"{origin} ({conc} clock): {detail}", case)

    n = len(states)
    i = 1
    okay = True
    try:
        with dd.quiet():
            while i < n and okay:
                op = states[i]["op"]
                a = op["a"]
                prev = states[i - 1]
                mark = len(ctl.trace)
                if a == "Initialize":
                    e = ctl.initialize()
                    q = i
                elif a in ("Start", "RunUpTo", "RunUpToIncl", "Step"):
                    b = op["arg"]
                    if a.startswith("RunUpTo") and (b < prev["clock"] or b > c["EndT"]) and prev["rs"] in ("INITIALIZED", "STOPPED") \
                            and prev["rep"] in ("INITIALIZED", "STARTED") and prev["clock"] < c["EndT"]:
                        break       # the statement admits refusal or acceptance here: decided by trace validation only
                    if op["res"] != "ok":
                        e = ctl.step() if a == "Step" else ctl.run_cmd(a, b)
                        q = i
                    else:
                        # find the end of the segment in the behaviour
                        j, nexec, pause_after, end = i + 1, 0, None, None
                        while j < n:
                            oj = states[j]["op"]["a"]
                            if oj == "Exec":
                                nexec += 1
                                if states[j]["mode"] == "none":     # fault pause
                                    end = j
                                    break
                            elif oj == "Pause":
                                pause_after, end = nexec, j
                                break
                            elif oj in ("SegmentEnd", "StepEnd", "HandlerEndRep"):
                                end = j
                                break
                            j += 1
                        if end is None:
                            break   # behaviour cut in mid-segment by the depth bound
                        e = ctl.step() if a == "Step" else ctl.run_cmd(a, b, pause_after)
                        q = end
                        while q + 1 < n and not _quiet(states[q]):
                            q += 1
                        if not _quiet(states[q]):
                            q = end
                elif a == "Stop":
                    e = ctl.stop(); q = i
                elif a == "EndReplication":
                    e = ctl.end_replication(); q = i
                    while q + 1 < n and not _quiet(states[q]):
                        q += 1
                elif a == "Cleanup":
                    e = ctl.cleanup(); q = i
                else:
                    i += 1
                    continue
                want = states[q]
                obs = ctl.observe()
                if ctl.errors:
                    bad(err_key(ctl.errors), f"after {a}: {ctl.errors}")
                    okay = False
                    break
                if e["res"] != op["res"]:
                    bad(f"cmd_result|{a}", f"{a}({op.get('arg')}) -> {e['res']} {e.get('msg', '')}, specification {op['res']}")
                    okay = False
                    break
                # executed events with their request results since the command
                spec_exec = [dict(states[k]["op"]) for k in range(i, q + 1) if states[k]["op"]["a"] == "Exec"]
                real_exec = [x for x in ctl.trace[mark:] if x["a"] == "Exec"]
                se = [(x["id"], x["clk"], list(x["res"])) for x in spec_exec]
                re_ = [(x["id"], x["clk"], list(x["res"])) for x in real_exec]
                if se != re_:
                    kind = "exec_order" if [x[:2] for x in se] != [x[:2] for x in re_] else "request_result"
                    bad(kind, f"after {a}({op.get('arg')}): executed (id, clock, request results) {re_}, specification {se}")
                    okay = False
                    break
                diffs = []
                if obs["rs"] != want["rs"]:
                    diffs.append(f"run_state {obs['rs']} != {want['rs']}")
                if obs["rep"] != want["rep"]:
                    diffs.append(f"replication_state {obs['rep']} != {want['rep']}")
                if obs["clock"] != want["clock"] and want["rs"] != "NOT_INITIALIZED":
                    diffs.append(f"clock {obs['clock']} != {want['clock']}")
                if obs["pending_known"] and want["rs"] != "NOT_INITIALIZED" and set(obs["pending"]) != set(want["pending"]):
                    diffs.append(f"pending {obs['pending']} != {sorted(want['pending'])}")
                walive = 0 if want["rs"] in ("NOT_INITIALIZED", "ENDED") else 1
                if obs["alive"] != walive:
                    diffs.append(f"run thread alive={obs['alive']} expected {walive}")
                if diffs:
                    bad("state|" + diffs[0].split()[0], f"after {a}({op.get('arg')}): " + "; ".join(diffs))
                    okay = False
                    break
                if observer:
                    for key, detail in observer(ctl, want, a):
                        bad(key, f"after {a}({op.get('arg')}): {detail}")
                        okay = False
                    if not okay:
                        break
                i = q + 1
    finally:
        ctl.dispose()
    return dd.clean_trace(ctl.trace) if okay and ctl.trace else None


# ----------------------------------------------------------------------------- C -> S

def random_program_gen(rng, end_t, maxev, p_fault, prios=(1, 5, 10), bad=("nan_abs", "nan_rel", "str_abs", "neg_tiny", "reinit", "hstart", "hrun", "hstep"), p_hstop=0.04,
                       p_cancel=0.12, p_strat=0.0, p_endrep=0.0):
    def gen(rank, ctl):
        h = gen0(rank, ctl)
        if p_endrep and rng.random() < p_endrep and not h["raise"] and ctl.sim.run_state.name == "STARTED" and ctl.in_run_mode:
            h["ops"].append({"k": "endrep", "a": 0, "p": 0})
        elif p_hstop and rng.random() < p_hstop:
            h["ops"].insert(rng.randrange(0, len(h["ops"]) + 1), {"k": "hstop", "a": 0, "p": 0})
        return h

    def gen0(rank, ctl):
        ops = []
        if p_strat and rng.random() < p_strat:
            ops.append({"k": "strat", "a": rng.choice([0, 1]), "p": 0})
        for _ in range(rng.choice([0, 1, 1, 2, 2, 3])):
            room = ctl.next_rank + sum(1 for o in ops if o["k"] in ("now", "rel", "abs")) < maxev
            r = rng.random()
            if r < p_cancel and ctl.next_rank >= 1:
                # mostly cancel events that are still pending (interior removals from a deep heap), sometimes any rank (executed ones too)
                pend = []
                if rng.random() < 0.8:
                    try:
                        el = ctl.sim.eventlist()
                        pend = [rk for rk, evn in ctl.events.items() if el.contains(evn)]
                    except Exception:
                        pend = []
                ops.append({"k": "cancel", "a": rng.choice(pend) if pend else rng.randrange(1, ctl.next_rank + 1), "p": 0})
            elif r < p_cancel + 0.08:
                ops.append({"k": rng.choice(bad), "a": 0, "p": 5})
            elif not room:
                continue
            elif r < 0.4:
                ops.append({"k": "now", "a": 0, "p": rng.choice(prios)})
            elif r < 0.8:
                ops.append({"k": "rel", "a": rng.choice([-1, 0, 0, 1, 1, 2, 3, 5]), "p": rng.choice(prios)})
            else:
                ops.append({"k": "abs", "a": rng.randrange(0, end_t + 3), "p": rng.choice(prios)})
        return {"ops": ops, "raise": rng.random() < p_fault}
    return gen


def random_run(ctx: Ctx, rng, conc, end_t, warm_t, strategy, *, cmds, p_fault=0.0, maxev=14, ncmds=8, reinit=False,
               model_factory=None, dispose=True, wide=False, p_strat=0.0, probe_starting=False, p_endrep=0.0, p_cancel=None, probe_cmds=False, one_shots=False):
    gen = random_program_gen(rng, end_t, maxev, p_fault, p_cancel=p_cancel if p_cancel is not None else (0.45 if wide else 0.12), p_strat=p_strat, p_endrep=p_endrep)
    init_ops = []
    for _ in range(rng.choice([10, 13, 16]) if wide else rng.choice([1, 2, 3])):
        k = rng.choice(["rel", "rel", "abs", "now"])
        a = 0 if k == "now" else rng.randrange(0, end_t + 2)
        init_ops.append({"k": k, "a": a, "p": rng.choice([1, 5, 10])})
    if wide:
        # interior removals from a deep heap right away: some of the initial events are cancelled again while ten or more are pending
        nsched = len(init_ops)
        for _ in range(rng.choice([1, 2, 3])):
            init_ops.append({"k": "cancel", "a": rng.randrange(1, nsched + 1), "p": 0})
    ctl = dd.SimCtl(conc, end_t, warm_t, strategy, init_ops=init_ops, prog_gen=gen, model_factory=model_factory)
    ctl.probe_starting = probe_starting
    ctl.probe_cmds = probe_cmds
    ctl.one_shots = one_shots
    try:
        with dd.quiet():
            ctl.initialize()
            ctl.observe()
            for _ in range(ncmds):
                rsn = ctl.sim.run_state.name
                pool = [c for c in cmds if c != "Pause"]
                if rsn == "ENDED" and reinit and rng.random() < 0.7:
                    pool = ["Initialize"]
                elif reinit and rng.random() < 0.12:
                    pool = ["Initialize"]
                c = rng.choice(pool)
                if c == "Initialize":
                    ctl.initialize()
                elif c in ("Start", "RunUpTo"):
                    pa = rng.choice([None, None, 1, 2, 3, 5]) if "Pause" in cmds else None
                    if c == "Start":
                        ctl.run_cmd("Start", None, pa)
                    else:
                        ctl.run_cmd(rng.choice(["RunUpTo", "RunUpToIncl"]), rng.randrange(0, end_t + 2), pa)
                    # a pause point beyond the segment's events is simply never reached
                    ctl.errors = [x for x in ctl.errors if x != "pause point not reached"]
                elif c == "Step":
                    ctl.step()
                elif c == "Stop":
                    ctl.stop()
                elif c == "EndReplication":
                    ctl.end_replication()
                elif c == "Cleanup":
                    ctl.cleanup()
                ctl.observe()
                if ctl.errors:
                    break
    finally:
        if dispose:
            ctl.dispose()
    return ctl


def trace_cfg(end_t, warm_t, strategy, print_stats=False):
    c = dict(PrintStats=print_stats, MaxId=100000, EndT=end_t, WarmT=warm_t, Prios=[], RelDelays=[], AbsTimes=[], BadKinds=[], MaxOps=0,
             Strategy=strategy, Bounds=[], MaxInits=100000, AllowFaults=True, StratOps=[], HStopOps=True, EndRepOps=True, MaxCmds=100000, Cmds=ALL_CMDS)
    lines = ["SPECIFICATION TraceSpec", "CONSTANTS"]
    defs = []
    for k, v in tla_consts(c).items():
        defs.append(f"c_{k} == {v}")
        lines.append(f"  {k} <- c_{k}")
    mod = "---- MODULE TraceDEVS_gen ----\nEXTENDS TraceDEVS\n" + "\n".join(defs) + "\n====\n"
    lines += ["CONSTRAINT Progress", "POSTCONDITION Post"] + [f"INVARIANT {i}" for i in TRACE_INVS] + ["CHECK_DEADLOCK FALSE"]
    return {"TraceDEVS_gen.tla": mod, "TraceDEVS_gen.cfg": "\n".join(lines) + "\n"}


def validate_groups(ctx: Ctx, groups, keyfn=None, label="TraceDEVS", print_stats=False, on_output=None):
    """groups: dict (end_t, warm_t, strategy) -> list of (trace, meta)."""
    total = 0
    for (end_t, warm_t, strategy), items in groups.items():
        if not items:
            continue
        trs = [t for t, _ in items]
        files = trace_cfg(end_t, warm_t, "pause" if strategy == "pause" else "continue", print_stats)
        rej, st = traces.validate("TraceDEVS_gen", "TraceDEVS_gen.cfg", trs, extra_files=files, timeout=2400, chunk=1500, deque=True,
                                  on_output=(lambda out, base: on_output(out, base, items)) if on_output else None)
        ctx.states += st["distinct"]; ctx.transitions += st["generated"]
        ctx.tlc_runs.append({"model": f"{label} end={end_t} warm={warm_t} {strategy}", "traces": len(trs),
                             **{k: (round(v, 2) if isinstance(v, float) else v) for k, v in st.items()}})
        total += len(trs)
        for r in rej:
            ev = r.event or {}
            meta = items[r.index][1]
            inv = getattr(r, "invariant", None)
            key = (keyfn(ev, inv) if keyfn else None) or ("trace|" + str(ev.get("a")) + ("|" + str(ev.get("ty")) if "ty" in ev else "")
                                                           + (f"|inv:{inv}" if inv else ""))
            ctx.violation(key, f"recorded run {meta}: events 1..{r.upto} are a behaviour of DEVS.tla, event {r.upto + 1} {json.dumps(ev)[:300]} is not"
                          + (f" (invariant {inv})" if inv else ""),
                          {"trace": r.trace, "explained": r.upto, "meta": meta, "consts": [end_t, warm_t, strategy]})
    ctx.traces += total
    return total


def selftest(ctx: Ctx, groups):
    """Corrupt recorded traces (drop an executed event / change a clock / swap a result) -> must be rejected."""
    if ctx.violations:
        return      # the run already fails; corrupted versions of rejected traces prove nothing
    for key, items in groups.items():
        bad = []
        for t, _ in items[:60]:
            idx = [k for k, e in enumerate(t) if e["a"] == "Exec" and e["kind"] == "H"]
            if len(idx) < 2:
                continue
            t2 = [dict(x) for x in t]
            if len(bad) % 2 == 0:
                del t2[idx[0]]
            else:
                t2[idx[-1]]["clk"] = t2[idx[-1]]["clk"] + 1
            bad.append(t2)
            if len(bad) >= 9:
                break
        if bad:
            files = trace_cfg(key[0], key[1], "pause" if key[2] == "pause" else "continue")
            rej, _ = traces.validate("TraceDEVS_gen", "TraceDEVS_gen.cfg", bad, extra_files=files, timeout=900, deque=True)
            if len(rej) != len(bad):
                raise tlc.MachineryError(f"binding self-test failed: {len(bad) - len(rej)} corrupted traces accepted")
            ctx.binding["selftest_corrupted_rejected"] = ctx.binding.get("selftest_corrupted_rejected", 0) + len(bad)
            return
    raise tlc.MachineryError("binding self-test: no suitable trace")


def replay_case(ctx: Ctx):
    case = json.load(open(ctx.replay))["case"]
    if "trace" in case:
        e, w, s = case["consts"]
        validate_groups(ctx, {(e, w, s): [(case["trace"], "replay")]})
    else:
        raise tlc.MachineryError("replay of S->C cases: re-run the check with the same seed (behaviours are regenerated deterministically)")
