"""C07 — end-to-end reproducibility: a run is a function of model, seeds and settings.

Specification view: the closed composition DEVS.tla + SimStats is deterministic for a fixed program;
hash seed, object identities, event counters, wall-clock speed and pause positions are simply not variables
of the specification.  C->S: child interpreters (PYTHONHASHSEED 0 / 1 / 12345 / random, different unrelated
prior activity, pilot replications, different pause and step plans) run one stochastic model with pub/sub
fan-out (listeners that draw from shared streams and schedule events, a TIME_CHANGED listener that consumes
random numbers, a listener that unsubscribes itself).  The children's traces are concatenated (NewSimulator
between them) and validated by TraceDEVS.tla: what handler k did (its scheduling requests in listener order)
must be the same function of k in every child, every replication executes the reference sequence, and the
statistics digest of every complete replication equals the first one.
"""
from __future__ import annotations

import json
import os
import subprocess
import tempfile
import shutil

from harness import tlc
from harness.core import Ctx, VERIF
from harness import drive_devs as dd
from checks import devs_common as dc

PID = "C07"


def plans(rng, nchildren, model):
    out = []
    hs = [0, 1, 12345, "random", 7, 99, "random", 31337]
    for i in range(nchildren):
        out.append({"hashseed": hs[i % len(hs)], "conc": model["conc"], "model": model,
                    "prior_events": rng.choice([0, 3, 50, 1000]), "prior_types": rng.choice([0, 2, 17]), "prior_strings": rng.choice([0, 10, 500]), "prior_draws": rng.choice([0, 1, 7]),
                    "pilot_replications": 1 if i % 3 == 1 else 0, "steps_first": 0,
                    "pauses": [rng.choice([1, 2, 3, 4, 6]) for _ in range(rng.choice([0, 1, 2, 4]))],
                    "bounds": [] if model["tc_listener"] else sorted([[rng.randrange(1, model["end_t"]), rng.random() < 0.5] for _ in range(rng.choice([0, 1, 2]))])})
    if not model["tc_listener"] and len(out) > 2:
        out[2]["bounds"] = [[max(1, model["end_t"] - 2), True]]      # at least one child pauses with an EXCLUSIVE bounded run before running to the end
    out[0].update(pilot_replications=0, steps_first=0, pauses=[], bounds=[], prior_events=0, prior_types=0, prior_strings=0, prior_draws=0)   # the plain reference run
    return out


def run_children(plist):
    d = tempfile.mkdtemp(prefix="c07_")
    res = []
    try:
        procs = []
        for i, p in enumerate(plist):
            f = os.path.join(d, f"plan{i}.json")
            json.dump(p, open(f, "w"))
            env = dict(os.environ, PYTHONHASHSEED=str(p["hashseed"]))
            procs.append(subprocess.Popen(["/venv/bin/python", "-W", "ignore", os.path.join(VERIF, "harness", "child_repro.py"), f, str(i), VERIF],
                                          stdout=subprocess.PIPE, stderr=subprocess.PIPE, env=env, text=True))
        for p in procs:
            so, se = p.communicate(timeout=600)
            if p.returncode != 0:
                raise tlc.MachineryError("child failed: " + se[-1500:])
            res.append(json.loads(so))
    finally:
        shutil.rmtree(d, ignore_errors=True)
    return res


def run(ctx: Ctx):
    ctx.assumptions += ["children are separate interpreter processes; TLC validates their concatenated traces against one specification with one program / statistics memo",
                        "models with a TIME_CHANGED listener that draws random numbers are paused by stop/start only; models without one also by bounded runs "
                        "(a bounded run moves the clock to its bound, so the next TIME_CHANGED may be omitted: same remark as for step())",
                        "children differ in stop/start pause positions, not in single steps: step() always announces TIME_CHANGED while the run loop announces it only "
                        "when the time changes, so a model whose listeners draw on TIME_CHANGED is not invariant under stepping (noted in DESIGN.md, not alarmed: the "
                        "statement speaks of where the run was paused)",
                        "the model's delays are on the k/4 time grid (floor of scaled draws); raw draws enter the statistics and are compared through the digest"]
    if ctx.replay:
        return dc.replay_case(ctx)
    # determinism of the closed specification for a fixed program: out-degree 1 once the program is fixed (reported for information)
    nmodels = ctx.pick(4, 24)
    nchildren = ctx.pick(6, 16)
    groups = {}
    pstraces = []
    for mi in range(nmodels):
        model = {"end_t": ctx.rng.choice([4, 6]), "warm_t": ctx.rng.choice([0, 1, 2]), "maxev": ctx.rng.choice([12, 20, 30]),
                 "listeners": ctx.rng.choice([5, 6, 8]), "replication_nr": ctx.rng.choice([0, 1, 1]), "tc_listener": mi % 2 == 0, "conc": dd.CONCS_OFF_BASE[mi % len(dd.CONCS_OFF_BASE)]}
        pl = plans(ctx.rng, nchildren, model)
        res = run_children(pl)
        trace = []
        bad = False
        for ci, r in enumerate(res):
            pstraces.append((r.get("pubsub", []), f"model {mi} child {ci}"))
            if r["errors"]:
                ctx.violation(dc.err_key(r["errors"]), f"model {mi} child {ci} (PYTHONHASHSEED={pl[ci]['hashseed']}): {r['errors']}", {"plan": pl[ci]})
                bad = True
                continue
            if trace:
                trace.append({"a": "NewSimulator"})
            trace.extend(r["trace"])
        ctx.evaluations += len(res)
        ctx.distinct.add(json.dumps(model, sort_keys=True))
        if not bad:
            groups.setdefault((model["end_t"], model["warm_t"], "pause"), []).append((trace, {"model": model, "plans": [{k: v for k, v in p.items() if k != "model"} for p in pl]}))
        if mi == 0:
            ctx.sample({"kind": "child plan", "plan": {k: v for k, v in pl[1].items() if k != "model"}, "model": model,
                        "trace_prefix": [e for e in res[1]["trace"] if e["a"] in ("Exec",)][:4]})
            ctx.notes["events_in_first_concatenated_trace"] = len(trace)

    def keyfn(ev, inv):
        if ev.get("a") == "Exec":
            return "trace|Exec|differs_between_children_or_from_reference"
        if ev.get("a") == "Quiescent" and ev.get("stats"):
            return "trace|Quiescent|statistics_digest"
        return None
    dc.validate_groups(ctx, groups, keyfn=keyfn, label="TraceDEVS (children concatenated)")
    # the fan-out producer of every child: delivery in subscription order (PubSub.tla)
    from harness import traces as tv
    pscfg = ("SPECIFICATION TraceSpec\nCONSTANTS\n  Types = {\"T1\"}\n  Listeners = {1, 2, 3, 4, 5, 6, 7, 8, 9, 10}\n  MaxDepth = 1000\n  MaxFires = 100000\n"
             "  MaxReact = 1000\n  Stamps = {}\nCONSTRAINT Progress\nPOSTCONDITION Post\nINVARIANT InvExactlySnapshot\nINVARIANT InvNoDup\nCHECK_DEADLOCK FALSE\n")
    rej, st = tv.validate("TracePubSub", "TracePubSub_c07.cfg", [t for t, _ in pstraces if t], extra_files={"TracePubSub_c07.cfg": pscfg}, timeout=1800)
    ctx.states += st["distinct"]; ctx.transitions += st["generated"]
    ctx.tlc_runs.append({"model": "TracePubSub (fan-out producer of every child)", "traces": len(pstraces), **{k: (round(v, 2) if isinstance(v, float) else v) for k, v in st.items()}})
    nonempty = [m for t, m in pstraces if t]
    for r in rej:
        ctx.violation("pubsub|" + str((r.event or {}).get("a")), f"{nonempty[r.index]}: fan-out events 1..{r.upto} are a behaviour of PubSub.tla, event {r.upto + 1} {r.event} is not "
                      "(listeners not notified in subscription order / exactly once)", {"trace": r.trace, "explained": r.upto})
    ctx.traces = ctx.evaluations
    if ctx.violations:
        return
    # self-test: in one child, swap the order of two requests inside one handler (= listener order changed) -> must be rejected
    from harness import traces as tv
    for key, items in groups.items():
        for t, meta in items:
            idx = [k for k, e in enumerate(t) if e["a"] == "Exec" and len(e["ops"]) >= 2 and e["ops"][0] != e["ops"][1]]
            late = [k for k in idx if k > len(t) // 2]
            if late:
                t2 = [dict(x) for x in t]
                k = late[0]
                t2[k]["ops"] = [t2[k]["ops"][1], t2[k]["ops"][0]] + t2[k]["ops"][2:]
                rej, _ = tv.validate("TraceDEVS_gen", "TraceDEVS_gen.cfg", [t2], extra_files=dc.trace_cfg(key[0], key[1], key[2]), deque=True, timeout=900)
                if len(rej) != 1:
                    raise tlc.MachineryError("self-test: changed listener order accepted")
                ctx.binding["selftest_listener_order_rejected"] = 1
                return
    raise tlc.MachineryError("self-test: no handler with two different requests in a late child")
