"""C03 — run horizon: bounded runs execute exactly the events up to the bound, leave the clock at
the bound, never pass the replication end, stay resumable, and any segmentation into run_up_to /
run_up_to_including / step / stop-start pieces composes to the uninterrupted run.

TLC: DEVS.tla with all segmentation commands; AgreesWithReference compares the segmented small-step
run with the big-step reference run of the same (lazily fixed) program.
S->C: simulated segmentations replayed on the real simulators (pauses by rendezvous in the handler).
C->S: random programs x random segmentations validated by TraceDEVS.tla (same invariants per step).
"""
from __future__ import annotations

from harness.core import Ctx
from harness import drive_devs as dd
from checks import devs_common as dc

PID = "C03"
SEG = ["Start", "Step", "RunUpTo", "Pause"]


def run(ctx: Ctx):
    ctx.assumptions += ["a pause is a stop() issued while the handler of the k-th event of the segment runs (rendezvous)",
                        "an exclusive bound equal to the replication end may end the replication without running the events at the end (statement silent)",
                        "bounds before the clock / beyond the end: refusal and no-op / clamping both admitted (decided by trace validation only)"]
    if ctx.replay:
        return dc.replay_case(ctx)
    q = ctx.quick
    small = dict(Prios=[5], RelDelays=[0, 2], AbsTimes=[], BadKinds=[], MaxOps=1, MaxInits=1, EndT=3, WarmT=1)
    need = ("ExecNext", "SegmentEnd", "StepEnd", "Pause", "Step", "RunUpTo", "Start", "Emit", "AnnounceTC")
    dc.model_check(ctx, "DEVS segmentations (4 commands)", dc.consts(MaxId=4, Cmds=SEG, Bounds=[1, 2, 3], MaxCmds=4, **small), need_actions=need)
    if not q:
        dc.model_check(ctx, "DEVS segmentations (5 commands)", dc.consts(MaxId=4, Cmds=SEG, Bounds=[1, 3], MaxCmds=5, **small))
        # (3 commands: about 12 million states; with 4 commands it is 48 million and, on a loaded machine, more than half an hour)
        dc.model_check(ctx, "DEVS segmentations (3 commands, 2 prios, 5 events)",
                       dc.consts(MaxId=5, Cmds=SEG, Bounds=[2, 3], MaxCmds=3, Prios=[1, 5], RelDelays=[0, 1], AbsTimes=[], BadKinds=[], MaxOps=1, MaxInits=1, EndT=3, WarmT=2),
                       timeout=5400)
    sim_cfgs = [
        dc.consts(MaxId=8, MaxOps=2, Prios=[1, 5], RelDelays=[0, 1, 2], AbsTimes=[], BadKinds=["hstart", "hrun"], HStopOps=True, Cmds=SEG, Bounds=[0, 1, 2, 3, 4], MaxCmds=7, EndT=4, WarmT=2),
        dc.consts(MaxId=7, MaxOps=1, Prios=[5, 10], RelDelays=[0, 1], AbsTimes=[3, 5], BadKinds=[], Cmds=SEG, Bounds=[1, 2, 3, 5], MaxCmds=8, EndT=3, WarmT=0),
    ]
    groups = {}
    bi = 0
    for k, cs in enumerate(sim_cfgs):
        for beh in dc.simulate(ctx, f"DEVS segmentations cfg{k}", cs, num=ctx.pick(120, 1500), depth=60, seed=ctx.seed + 30 + k):
            conc = dd.CONCS_OFF[bi % len(dd.CONCS_OFF)]
            tr = dc.replay(ctx, beh, conc, cs, f"behaviour {bi}")
            ctx.evaluations += 1
            cmds = [s["op"]["a"] for _, _, s in beh if s["op"]["a"] in ("Start", "Step", "RunUpTo", "RunUpToIncl", "Pause")]
            ctx.distinct.add(repr([dict(s["op"]) for _, _, s in beh if s["op"]["a"] not in ("Notif",)]))
            if tr:
                groups.setdefault((cs["EndT"], cs["WarmT"], cs["Strategy"]), []).append((tr, f"S->C behaviour {bi} {conc}"))
            if bi == 0:
                ctx.sample({"kind": "S->C segmentation", "commands": [dict(s["op"]) for _, _, s in beh if s["op"]["a"] not in ("Notif", "Exec")][:12]})
            bi += 1
            if len(ctx.violations) > 15:
                break
    if len(ctx.violations) > 15:
        return          # the run already fails: skip the random runs (a broken tree makes them slow)
    n = ctx.pick(250, 3000)
    for i in range(n):
        conc = dd.CONCS_OFF[i % len(dd.CONCS_OFF)]
        end_t, warm_t = ctx.rng.choice([(4, 2), (6, 0), (5, 5)])
        ctl = dc.random_run(ctx, ctx.rng, conc, end_t, warm_t, "pause", cmds=SEG, ncmds=ctx.rng.choice([4, 8, 12]),
                            maxev=ctx.rng.choice([6, 12, 20]))
        ctx.evaluations += 1
        if ctl.errors:
            ctx.violation(dc.err_key(ctl.errors), f"random run {i}: {ctl.errors}", {"trace": dd.clean_trace(ctl.trace)})
            continue
        groups.setdefault((end_t, warm_t, "pause"), []).append((dd.clean_trace(ctl.trace), f"random run {i} {conc}"))
        if i == 0:
            ctx.sample({"kind": "C->S trace (commands)", "events": [e for e in dd.clean_trace(ctl.trace) if e["a"] not in ("Notif", "Exec")][:10]})
    dc.validate_groups(ctx, groups)
    # segmentation must not change what is executed, also when LISTENERS schedule and cancel (step() takes its event off the list
    # before announcing it, exactly like the run loop; a STOP listener's event at the bound belongs to the next segment)
    from checks import c02 as _c02
    _c02.listener_scheduling(ctx, scale=0.4)
    _c02.segment_listeners(ctx, scale=0.6)
    dc.selftest(ctx, groups)
