"""C09 — Tally and Counter report the textbook statistics; every query is total (value or NaN).

TLC: Stats.tla[tally|counter]: all histories of register / rejected input / initialise up to the bound with
every getter as an exact rational (or NaN) from the documented definitions.  S->C: every transition of the
complete graph is executed on Tally / EventBasedTally (with and without subscribers) / Counter /
EventBasedCounter, through exact affine images (large offset, small spread; negative scale) and a 200-fold
repetition of the pattern.
"""
from harness.core import Ctx
from checks import stats_common as sc

PID = "C09"


def run(ctx: Ctx):
    ctx.assumptions += ["inputs are exact doubles (dyadic affine images of small integers); getters compared at 1e-9 relative",
                        "z quantiles from statistics.NormalDist (trusted)",
                        "the thresholds at which a moment statistic becomes defined (n > 1, 2, 3) follow the documented definitions"]
    q = ctx.quick
    sc.check_kind(ctx, "tally", 5 if q else 6, all_paths=True)
    sc.check_kind(ctx, "tally", 4 if q else 5, vals=(0, 2, 6), label="Stats[tally] values {0,2,6}")
    sc.check_kind(ctx, "counter", 5 if q else 6, all_paths=True)
