"""C04 (b) — overlap layer: SimThreads.tla bound to the real caller / run threads.

TLC: every interleaving of the script's commands with the run thread at the granularity of shared accesses
     (pinned tree: Fixes = {}); strict invariants show the two known race families (late STOPPING write,
     start admitted before the previous wake-up was cleared); with those set aside (history flags) no other
     violation exists for the scenarios.
S->C: TLC behaviours (simulate + the counterexamples) are executed on the REAL threads by the interposition
     scheduler: before each step the announced access of the granted thread must be the specification's
     label, after it the shared state must equal the specification state.
C->S: seeded random schedules of the real threads; the recorded access log is validated by
     TraceSimThreads.tla.  Verdicts come from observables on the real objects at quiescence.
"""
from __future__ import annotations

import random

from harness import tlc, traces
from harness.core import Ctx
from harness.tlc import tla_set as S, tla_lit as L

SCENARIOS = [      # (script, events, failing handlers, handlers that call stop(), START_EVENT listener command, STOP_EVENT listener command)
    # ---- quick and thorough
    (["start", "stop", "start"], 2, [1], [], "none", "none"),
    (["start", "start"], 2, [], [1], "none", "none"),
    (["start", "stop", "start", "stop"], 3, [1], [], "none", "none"),
    (["start", "stop", "start"], 3, [], [2], "none", "none"),
    (["start", "endrep"], 2, [], [], "none", "none"),
    (["start", "stop", "endrep"], 2, [1], [], "none", "none"),
    (["start"], 2, [], [], "stop", "none"),
    (["start", "stop"], 2, [], [], "none", "start"),
    (["start", "start"], 2, [1], [], "none", "start"),
    (["start", "cleanup"], 2, [], [], "none", "none"),
    (["start", "stop", "cleanup", "start"], 2, [1], [], "none", "none"),
    (["start", "cleanup", "endrep"], 2, [], [1], "none", "none"),
    (["start"], 2, [], [-1], "none", "none"),                     # the handler of event 1 calls cleanup() (what WARN_AND_END does)
    # ---- thorough only
    (["start", "stop"], 1, [], [], "none", "none"),
    (["stop", "start", "start"], 1, [], [], "none", "none"),
    (["start", "start", "stop"], 2, [], [], "none", "none"),
    (["endrep", "start"], 1, [], [], "none", "none"),
    (["start", "endrep", "stop"], 2, [], [], "none", "none"),
    (["start", "stop", "start"], 3, [], [], "stop", "start"),
    (["start", "stop", "cleanup"], 3, [], [2], "none", "start"),
    (["start", "cleanup", "start", "stop"], 2, [2], [], "none", "none"),
]
STRICT = ["NoStuckState", "StartEffective", "NoSpuriousSegment", "CleanupFinal", "EndedFinal", "ThreadGoneAfterEnd", "RefusedWroteNothing", "StopEffective", "EndRepEffective"]
LIVE = ["Settles", "EndedThreadGone", "EveryCommandReturns"]
KNOWN = ["NoStuckStateK", "StartEffectiveK", "NoSpuriousSegment", "CleanupFinalK", "EndedFinalK", "ThreadGoneK", "RefusedWroteNothing", "StopEffectiveK", "EndRepEffectiveK"]


def consts(script, nev, faulty, stoppers=(), onstart="none", onstop="none", fixes=(), anyto=False):
    # (a negative entry -k in `stoppers` means: the handler of event k calls cleanup() instead of stop())
    return {"Script": L(script), "NEvents": str(nev), "Faulty": S(faulty), "Stoppers": S([k for k in stoppers if k > 0]), "Cleaners": S([-k for k in stoppers if k < 0]), "OnStart": L(onstart), "OnStop": L(onstop), "Fixes": S(list(fixes)),
            "AnyTimeout": "TRUE" if anyto else "FALSE"}


def spec_x(v):
    return v


def real_x(d):
    x = d["x"]
    if isinstance(x, bool):
        return "True" if x else "False"
    if x is None:
        return "-"
    return str(x)


def real_v(d):
    return d["v"] if d["v"] is not None else "-"


def log_to_trace(log):
    out = []
    for d in log:
        v = real_v(d)
        if d["k"] == "sleep":
            v = "timeout" if d.get("timeout") else "-"
        out.append({"t": d["t"], "k": d["k"], "v": v, "x": real_x(d)})
    return out


def signatures(log, final):
    """structural schedule signatures of the two known race families, computed from the REAL access log"""
    sig = set()
    rs_writes = [(k, d) for k, d in enumerate(log) if d["k"] == "W" and d["v"] == "rs"]
    if final["rs"] == "STOPPING" and rs_writes and rs_writes[-1][1]["t"] == "c" and rs_writes[-1][1]["x"] == "STOPPING":
        sig.add("race|late_stopping_write")
    rep_writes = [d for d in log if d["k"] == "W" and d["v"] == "rep"]
    if final["rep"] == "ENDING" and len(rep_writes) >= 2 and rep_writes[-1]["t"] == "c" and rep_writes[-2]["t"] == "w" and rep_writes[-2]["x"] == "ENDED":
        sig.add("race|late_ending_write")
    for k, d in enumerate(log):
        if d["t"] == "w" and d["k"] == "W" and d["v"] == "rs" and d["x"] == "NOT_INITIALIZED":      # cleanup() on the run thread ...
            nxt = next((e for e in log[k + 1:] if e["t"] == "w" and e["k"] == "W" and e["v"] == "rs"), None)
            if nxt is not None and nxt["x"] == "STOPPED":                                          # ... which then writes STOPPED over it
                sig.add("listener|cleanup_in_handler_overwritten")
    for k, d in enumerate(log):
        if d["t"] == "w" and d["k"] == "W" and d["v"] == "rs" and d["x"] == "STARTING":      # only a listener's start() writes STARTING on the run thread
            nxt = next((e for e in log[k + 1:] if e["t"] == "w" and e["k"] == "ev" and e["v"] in ("clear", "woke")), None)
            if nxt is not None and nxt["v"] == "clear":
                sig.add("listener|start_in_stop_listener_lost")
        if d["t"] == "w" and d["k"] == "W" and d["v"] == "rs" and d["x"] == "STOPPING":
            nxt = next((e for e in log[k + 1:] if e["t"] == "w" and e["k"] == "W" and e["v"] == "rs"), None)
            if nxt is not None and nxt["x"] == "STARTED":
                sig.add("listener|stop_in_start_listener_overwritten")
    for k, d in enumerate(log):
        if d["t"] == "c" and d["k"] == "W" and d["v"] == "rep" and d["x"] == "ENDING":
            nxt = next((e for e in log[k + 1:] if e["t"] == "w" and e["k"] == "ev" and e["v"] in ("clear", "woke")), None)
            if nxt is not None and nxt["v"] == "clear" and final["rep"] == "ENDING":
                sig.add("race|end_replication_wakeup_cleared")
    for k, d in enumerate(log):
        if d["t"] == "c" and d["k"] == "W" and d["v"] == "rs" and d["x"] == "STARTING":
            nxt = next((e for e in log[k + 1:] if e["t"] == "w" and e["k"] == "ev" and e["v"] in ("clear", "woke")), None)
            prev_run = any(e["t"] == "w" and e["k"] == "W" and e["v"] == "rs" and e["x"] == "STARTED" for e in log[:k])
            # the window: the run loop has already decided to leave (its last test of run_state failed, or it wrote STOPPED,
            # or it wrote STOPPING at the natural end, i.e. right after ENDING); a start admitted while a handler is
            # still running is NOT in the window: the pinned loop sees STARTING and keeps running
            wacc = [e for e in log[:k] if e["t"] == "w" and (e["k"] == "exec" or (e["k"] in ("R", "W") and e["v"] in ("rs", "rep")))]
            a = wacc[-1] if wacc else None
            b = wacc[-2] if len(wacc) > 1 else None
            left = a is not None and ((a["k"] == "R" and a["v"] == "rs" and a["x"] not in ("STARTING", "STARTED")) or
                                      (a["k"] == "W" and a["v"] == "rs" and a["x"] == "STOPPED") or
                                      (a["k"] == "R" and a["v"] == "rep") or
                                      (a["k"] == "W" and a["v"] == "rs" and a["x"] == "STOPPING" and b is not None and b["k"] == "W" and b["v"] == "rep" and b["x"] == "ENDING"))
            if prev_run and left and nxt is not None and nxt["v"] == "clear":
                sig.add("race|start_before_wakeup_cleared")
    return sig


def observables(ctx, sc, label, case):
    """SimProtocol-level verdicts on the real objects at quiescence"""
    st = sc.state()
    from harness.sched import SCHED
    sig = signatures(SCHED.log, st)
    probs = []
    if sc.runnable():
        probs.append(("not_settled", f"threads still runnable after a fair schedule of {len(SCHED.log)} accesses (specification: Settles, every scenario ends quiescent): {sc.runnable()}"))
    starts_ok = sum(1 for c, r in st["results"] if c in ("start", "start@STOP") and r == "ok")
    if ("stop@START", "ok") in st["results"]:
        k0 = next((k for k, d in enumerate(SCHED.log) if d["t"] == "w" and d["k"] == "W" and d["v"] == "rs" and d["x"] == "STOPPING"), None)
        nexec = 0
        for e in (SCHED.log[k0 + 1:] if k0 is not None else []):
            if e["k"] == "W" and e["v"] == "rs" and e["x"] in ("STOPPED", "ENDED", "STARTING"):
                break
            if e["t"] == "w" and e["k"] == "exec":
                nexec += 1
        if nexec:
            probs.append(("stop_from_listener_ignored", f"a START_EVENT listener's stop() returned normally but the run thread went on to execute {nexec} event(s) in that segment"))
    segments = sum(1 for d in SCHED.log if d["t"] == "w" and d["k"] == "W" and d["v"] == "rs" and d["x"] == "STARTED")     # one STARTED write of the run thread per segment
    if st["rs"] in ("STARTING", "STARTED", "STOPPING"):
        probs.append(("stuck_state", f"at quiescence run_state = {st['rs']} (replication_state = {st['rep']}); commands returned {st['results']}"))
    if segments > starts_ok:
        probs.append(("spurious_segment", f"the run thread ran {segments} segment(s) for {starts_ok} start() calls that returned normally"))
    # an accepted start() takes effect: after its STARTING write the run thread executes an event or ends the replication,
    # unless a later accepted stop() / cleanup() / end_replication() supersedes it
    log = SCHED.log
    for k0, d in enumerate(log):
        if d["k"] == "W" and d["v"] == "rs" and d["x"] == "STARTING":
            eff = False
            for e in log[k0 + 1:]:
                if e["t"] == "w" and (e["k"] == "exec" or (e["k"] == "W" and e["v"] == "rep" and e["x"] in ("ENDING", "ENDED"))):
                    eff = True
                    break
                if e["t"] == "c" and e["k"] == "W" and ((e["v"] == "rs" and e["x"] in ("STOPPING", "NOT_INITIALIZED")) or (e["v"] == "rep" and e["x"] == "ENDING")):
                    eff = True          # superseded by a later command
                    break
            if not eff:
                probs.append(("lost_start", f"a start() on thread {d['t']} wrote STARTING and returned, but the run thread neither executed an event nor ended the replication afterwards; "
                                            f"final run_state {st['rs']}, {starts_ok} accepted start(s), {segments} segment(s)"))
                break
    if (("cleanup", "ok") in st["results"] or ("cleanup@handler", "ok") in st["results"]) and (st["rs"] != "NOT_INITIALIZED" or st["rep"] != "NOT_INITIALIZED" or "w" not in st["done"]):
        probs.append(("cleanup_not_final", f"cleanup() returned but at quiescence run_state = {st['rs']}, replication_state = {st['rep']}, run thread finished = {'w' in st['done']}"))
    ends_ok = sum(1 for c_, r in st["results"] if c_ == "end_replication" and r == "ok")
    if ends_ok and (st["rep"] != "ENDED" or st["rs"] != "ENDED" or "w" not in st["done"]):
        probs.append(("end_replication_lost", f"end_replication() returned normally but at quiescence replication_state = {st['rep']}, run_state = {st['rs']}, run thread finished = {'w' in st['done']}"))
    if st["rep"] == "ENDED" and (st["rs"] != "ENDED" or "w" not in st["done"]):
        probs.append(("ended_not_final", f"replication ENDED but run_state = {st['rs']}, run thread finished = {'w' in st['done']}"))
    for k0, d in enumerate(log):
        if d["t"] == "w" and d["k"] == "exec" and int(d["x"]) in [k_ for k_ in getattr(sc.model, "stoppers", ()) if k_ > 0]:
            seg = []
            for e in log[k0 + 1:]:
                if e["t"] == "w" and e["k"] == "W" and e["v"] == "rs" and e["x"] in ("STOPPED", "ENDED"):
                    break
                seg.append(e)
            accepted = any(e["t"] == "w" and e["k"] == "sleep" for e in seg) or any(e["t"] == "w" and e["k"] == "W" and e["x"] == "STOPPING" for e in seg)
            refused_in_handler = not accepted and any(e["t"] == "w" and e["k"] == "R" and e["v"] == "rs" and e["x"] not in ("STARTED", "STARTING") for e in seg[:2])
            superseded = any(e["t"] == "c" and e["k"] == "W" and e["v"] == "rs" and e["x"] == "STARTING" for e in seg)     # a start() admitted during the handler's stop keeps the loop running
            if any(e["t"] == "w" and e["k"] == "exec" for e in seg) and not refused_in_handler and not superseded:
                probs.append(("stop_from_handler_ignored", f"the handler of event {d['x']} called stop() but the run thread went on executing events in the same segment"))
    # an accepted stop() takes effect: after the caller's STOPPING write the run thread finishes at most the event in progress
    for k0, d in enumerate(log):
        if d["t"] == "c" and d["k"] == "W" and d["v"] == "rs" and d["x"] == "STOPPING":
            nexec = 0
            for e in log[k0 + 1:]:
                if e["t"] == "w" and e["k"] == "W" and e["v"] == "rs" and e["x"] in ("STOPPED", "ENDED"):
                    break
                if e["t"] == "c" and e["k"] == "W" and e["v"] == "rs" and e["x"] == "STARTING":
                    break           # a new start supersedes the stop
                if e["t"] == "w" and e["k"] == "exec":
                    nexec += 1
            if nexec > 1:
                probs.append(("stop_lost", f"stop() wrote STOPPING but the run thread executed {nexec} more events before parking"))
    for key, detail in probs:
        k = None
        if key == "cleanup_not_final" and "listener|cleanup_in_handler_overwritten" in sig and st["rs"] == "STOPPED" and st["rep"] == "NOT_INITIALIZED" and "w" in st["done"]:
            k = "listener|cleanup_in_handler_overwritten"
        elif key == "stop_from_listener_ignored" and "listener|stop_in_start_listener_overwritten" in sig:
            k = "listener|stop_in_start_listener_overwritten"
        elif key == "lost_start" and "listener|start_in_stop_listener_lost" in sig:
            k = "listener|start_in_stop_listener_lost"
        elif key == "end_replication_lost" and "race|late_ending_write" in sig:
            k = "race|late_ending_write"
        elif key == "end_replication_lost" and "race|end_replication_wakeup_cleared" in sig:
            k = "race|end_replication_wakeup_cleared"
        elif "race|late_stopping_write" in sig and (key in ("stuck_state", "ended_not_final") or (key == "end_replication_lost" and st["rep"] == "ENDED" and "w" in st["done"] and st["rs"] == "STOPPING")):
            k = "race|late_stopping_write"
        elif "race|start_before_wakeup_cleared" in sig and key in ("lost_start", "stuck_state"):
            k = "race|start_before_wakeup_cleared"
        ctx.violation(k or f"overlap|{key}", f"{label}: {detail}", case)
    return probs


def replay_behaviour(ctx, beh, script, nev, faulty, label, stoppers=(), onstart="none", onstop="none"):
    """execute one SimThreads.tla behaviour on the real threads; returns 'ok' | 'diverged' | 'error'"""
    from harness.drive_threads import Scenario
    from harness.sched import SCHED, Deadlock
    sc = Scenario(script, nevents=nev, faults=faulty, stoppers=stoppers, onstart=onstart, onstop=onstop)
    case = {"script": script, "nevents": nev, "faulty": faulty, "stoppers": list(stoppers), "onstart": onstart, "onstop": onstop, "steps": [dict(s["last"]) for _, _, s in beh[1:]]}
    status = "ok"
    try:
        for k, (_, _, st) in enumerate(beh[1:]):
            last = st["last"]
            t = last["t"]
            pend = sc.pending(t)
            want_k, want_v = last["k"], last["v"]
            if pend is None:
                status = f"diverged at step {k}: specification moves {t} ({want_k} {want_v}) but that thread is not runnable"
                break
            got_v = real_v(pend)
            if pend["k"] != want_k or (want_k != "sleep" and got_v != want_v) or (want_k == "W" and real_x(pend) != last["x"]):
                status = f"diverged at step {k}: {t} announces {pend['k']} {got_v} {pend['x']}, specification {want_k} {want_v} {last['x']}"
                break
            sc.step(t, timeout=(want_k == "sleep" and want_v == "timeout"))
            done = SCHED.log[-1]
            if want_k in ("R", "exec", "ret") and real_x(done) != last["x"]:
                status = f"diverged at step {k}: {t} {want_k} {want_v} saw {real_x(done)}, specification {last['x']}"
                break
            rst = sc.state()
            proj = {"rs": rst["rs"], "rep": rst["rep"], "runflag": bool(rst["runflag"]), "fin": bool(rst["fin"]), "flag": bool(rst["flag"])}
            spec = {"rs": st["rs"], "rep": st["rep"], "runflag": st["runflag"], "fin": st["fin"], "flag": st["flag"]}
            if proj != spec:
                status = f"diverged at step {k}: shared state {proj}, specification {spec}"
                break
        # run on to quiescence with a fair chooser, then judge the observables
        fair = FairChooser(random.Random(1))
        sc.run_schedule(fair.choose, max_steps=4000)
        observables(ctx, sc, label, case)
    except Deadlock as ex:
        status = f"error: {ex}"
    finally:
        sc.close()
    return status


class FairChooser:
    """random scheduling that does not starve: a spinning thread is not chosen twice in a row while the other can move;
    a spin wait times out only when the other thread cannot move (the specification's assumption)"""

    def __init__(self, rng, p_caller=0.5):
        self.rng, self.p = rng, p_caller

    def choose(self, sc, runnable):
        pw = sc.pending("w") if "w" in runnable else None
        if pw and pw["k"] == "sleep":                 # the run thread waiting for itself (stop() from a handler): only a time-out ends it
            return "w", self.rng.random() < 0.5
        pc = sc.pending("c") if "c" in runnable else None
        if pc and pc["k"] == "sleep":
            if "w" in runnable:
                if self.rng.random() < 0.7:
                    return "w", False
                return "c", False
            pc["timeout"] = True
            return "c", True
        if len(runnable) == 1:
            return runnable[0], False
        return ("c" if self.rng.random() < self.p else "w"), False


def overlap_layer(ctx: Ctx):
    from harness.drive_threads import Scenario
    from harness.sched import SCHED, Deadlock
    from harness import sched as schedmod
    ctx.assumptions += ["(b) a runnable thread takes a step within the code's one-second spin waits (a timeout fires only when the other thread is blocked or gone)",
                        "(b) accesses of _run_state, _replication_state, _runflag, _finalized and the wake-up Event are interposed by descriptors / module shims (no source change)"]
    try:
        diverged = 0
        nbeh = 0
        all_traces = {}
        for si, (script, nev, faulty, stoppers, onstart, onstop) in enumerate(SCENARIOS[: ctx.pick(13, len(SCENARIOS))]):
            c = consts(script, nev, faulty, stoppers, onstart, onstop)
            # exhaustive: strict invariants expose the known races, the K-invariants must hold
            files, mod, cfg = tlc.mc_files("MC_SimThreads", "SimThreads", c, invariants=KNOWN)
            r = tlc.run(mod, cfg, extra_files=files, workers=8, timeout=900)
            ctx.add_tlc(f"SimThreads {script} events={nev} faulty={faulty} (known races set aside)", r)
            if not r.ok:
                raise tlc.MachineryError(f"SimThreads.tla (pinned) violates {r.violated} beyond the known races for {script}: the model or the code has a third race")
            # liveness under fairness of both threads and of the clock: every command returns, the threads settle, ENDED => the run thread ends
            files, mod, cfg = tlc.mc_files("MC_SimThreads_live", "SimThreads", c, spec="LiveSpec", properties=LIVE)
            rl = tlc.run(mod, cfg, extra_files=files, workers=4, timeout=900)
            ctx.add_tlc(f"SimThreads {script} liveness {LIVE}", rl)
            if not rl.ok:
                raise tlc.MachineryError(f"SimThreads.tla violates liveness {rl.violated} for {script}")
            if si == 1:      # (a scenario in which the run thread waits for itself) vacuity guards: a false liveness property is refuted; without the clock's fairness the threads need not settle
                for spec_, prop_, extra_ in (("LiveSpec", "Bogus", 'Bogus == <>[](pc["w"] = "Done")'), ("NoClock", "Settles", "NoClock == Spec /\\ WF_vars(caller)")):
                    files, mod, cfg = tlc.mc_files("MC_SimThreads_live", "SimThreads", c, spec=spec_, properties=[prop_], extra_defs=extra_)
                    rb = tlc.run(mod, cfg, extra_files=files, workers=4, timeout=900)
                    if rb.violated != prop_:
                        raise tlc.MachineryError(f"liveness self-test: {prop_} under {spec_} was not refuted")
                ctx.binding["liveness_selftests_refuted"] = 2
            files, mod, cfg = tlc.mc_files("MC_SimThreads", "SimThreads", c, invariants=STRICT)
            rs_ = tlc.run(mod, cfg, extra_files=files, workers=8, timeout=900)
            ctx.add_tlc(f"SimThreads {script} strict", rs_)
            behs = []
            if rs_.violated and rs_.error_trace:
                behs.append([(a, None, s) for a, s in rs_.error_trace])      # the counterexample schedule itself is executed on the real threads
            files, mod, cfg = tlc.mc_files("MC_SimThreads_sim", "SimThreads", c)
            sb, r2 = tlc.simulate(mod, cfg, num=ctx.pick(30, 300), depth=120, seed=ctx.seed + 400 + si, extra_files=files, timeout=900)
            ctx.add_tlc(f"SimThreads {script} -simulate", r2)
            behs += sb
            # one test per TRANSITION: every edge of the complete graph is executed on the real threads
            from harness import graphs
            nodes, edges, inits, r3 = tlc.dump_graph(mod, cfg, extra_files=files, workers=1, timeout=900)
            edges = [e for e in edges if e[0] != e[2]]       # PlusCal's Terminating disjunct stutters at the final state
            ctx.add_tlc(f"SimThreads {script} graph for edge cover", r3)
            paths, ncov = graphs.edge_cover(nodes, edges, inits)
            if ncov != len(edges):
                raise tlc.MachineryError("edge cover incomplete")
            cap = ctx.pick(250, 100000)
            ctx.notes.setdefault("thread_edge_cover", {})[str(script) + str(stoppers) + str(faulty) + onstart + onstop] = {"states": len(nodes), "edges": len(edges), "paths": len(paths),
                                                                                                 "paths_executed": min(len(paths), cap)}
            if len(paths) > cap:
                step = len(paths) / cap
                paths = [paths[int(k * step)] for k in range(cap)]
            for p in paths:
                behs.append([("Init", None, nodes[inits[0]])] + [(edges[k][1], None, nodes[edges[k][2]]) for k in p])
            for bi, beh in enumerate(behs):
                status = replay_behaviour(ctx, beh, script, nev, faulty, f"scenario {script} events={nev} faulty={faulty} stoppers={stoppers} listeners={onstart}/{onstop} behaviour {bi}", stoppers, onstart, onstop)
                nbeh += 1
                ctx.evaluations += 1
                ctx.distinct.add(("thr", si, tuple((s["last"]["t"], s["last"]["k"]) for _, _, s in beh[1:])))
                if status != "ok":
                    diverged += 1
                    ctx.binding.setdefault("thread_binding_diverged", []).append(f"{script} behaviour {bi}: {status}")
                    ctx.binding["thread_binding_diverged"] = ctx.binding["thread_binding_diverged"][:5]
            # C->S: random schedules on the real threads
            trs = []
            for k in range(ctx.pick(60, 600)):
                rng = random.Random(ctx.seed * 1000 + si * 100 + k)
                sc = Scenario(script, nevents=nev, faults=faulty, stoppers=stoppers, onstart=onstart, onstop=onstop)
                try:
                    sc.run_schedule(FairChooser(rng, p_caller=rng.choice([0.2, 0.5, 0.8])).choose, max_steps=6000)
                    observables(ctx, sc, f"random schedule {k} of {script} events={nev} faulty={faulty}", {"script": script, "log": log_to_trace(SCHED.log)})
                    trs.append(log_to_trace(SCHED.log))
                except Deadlock as ex:
                    ctx.violation("overlap|deadlock", f"random schedule {k} of {script}: {ex}", {"script": script, "log": log_to_trace(SCHED.log)})
                finally:
                    sc.close()
                ctx.evaluations += 1
            all_traces[si] = trs
            tc = dict(c)
            mod = ("---- MODULE TraceSimThreads_gen ----\nEXTENDS TraceSimThreads\n" + "\n".join(f"c_{k} == {v}" for k, v in tc.items()) + "\n====\n")
            cfgt = ("SPECIFICATION TraceSpec\nCONSTANTS\n" + "\n".join(f"  {k} <- c_{k}" for k in tc) +
                    "\nCONSTRAINT Progress\nPOSTCONDITION Post\n" + "\n".join(f"INVARIANT {i}" for i in ("InvNoStuckStateK", "InvStartEffectiveK", "InvNoSpuriousSegment", "InvCleanupFinalK", "InvEndedFinalK", "InvThreadGoneK", "InvRefused", "InvStopEffectiveK", "InvEndRepEffectiveK")) +
                    "\nCHECK_DEADLOCK FALSE\n")
            rej, st = traces.validate("TraceSimThreads_gen", "TraceSimThreads_gen.cfg", trs, extra_files={"TraceSimThreads_gen.tla": mod, "TraceSimThreads_gen.cfg": cfgt},
                                      timeout=1800, deque=True)
            ctx.states += st["distinct"]; ctx.transitions += st["generated"]
            ctx.tlc_runs.append({"model": f"TraceSimThreads {script}", "traces": len(trs), **{k: (round(v, 2) if isinstance(v, float) else v) for k, v in st.items()}})
            ctx.traces += len(trs)
            for rj in rej:
                # the access sequence is implementation-shaped: a rejection is a divergence of the binding, verdicts come from observables
                ctx.binding.setdefault("thread_trace_rejected", []).append(f"{script} schedule {rj.index}: explained {rj.upto}/{len(rj.trace)}, next {rj.event}")
                ctx.binding["thread_trace_rejected"] = ctx.binding["thread_trace_rejected"][:5]
                diverged += 1
        ctx.traces += nbeh
        ctx.notes["thread_behaviours_replayed"] = nbeh
        ctx.notes["thread_binding_divergences"] = diverged
        ctx.sample({"kind": "real access log (random schedule, prefix)", "log": all_traces[0][0][:16] if all_traces.get(0) else []})
    finally:
        schedmod.uninstall()
