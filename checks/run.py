import importlib
import sys

from harness.core import main_wrapper


def main():
    pid = sys.argv[1].upper()
    mod = importlib.import_module("checks." + pid.lower())
    rc = main_wrapper(pid, mod.run, sys.argv[2:])
    # the simulator's run threads are non-daemon: a thread left parked by a failed scenario must not keep the check alive
    sys.stdout.flush()
    sys.stderr.flush()
    import os
    os._exit(rc)


if __name__ == "__main__":
    main()
