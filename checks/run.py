import importlib
import sys

from harness.core import main_wrapper


def main():
    pid = sys.argv[1].upper()
    mod = importlib.import_module("checks." + pid.lower())
    sys.exit(main_wrapper(pid, mod.run, sys.argv[2:]))


if __name__ == "__main__":
    main()
