"""C01 — event list is a faithful priority queue.

1. TLC: EventList.tla invariants (bounded-exhaustive), EventListHeap.tla refines it
   (HeapInv, Refines); the pinned remove() variant must be *found* violating (model
   sensitivity self-test); TLAPS proves the order lemmas for all integers.
2. S->C: edge cover of the complete small graph + -simulate behaviours of the heap model,
   replayed on the real EventListHeap under 4 time concretisations.
3. C->S: seeded random histories of the real EventListHeap validated by TraceEventList.tla.
4. Binding self-test: a corrupted trace must be rejected.
"""
from __future__ import annotations

import os
import shutil
import subprocess

from harness import tlc, traces, graphs
from harness.core import Ctx
from harness.drive_eventlist import ELDriver, CONCS

PID = "C01"


def _cfg(maxev, times, prios, heapify, level, invs, props):
    lines = ["SPECIFICATION Spec", "CONSTANTS", f"  MaxEv = {maxev}",
             "  Times = {" + ", ".join(map(str, times)) + "}",
             "  Prios = {" + ", ".join(map(str, prios)) + "}", f"  MaxLevel = {level}"]
    if heapify is not None:
        lines.append(f"  RemoveHeapifies = {'TRUE' if heapify else 'FALSE'}")
    lines.append("CONSTRAINT LevelBound")
    lines += [f"INVARIANT {i}" for i in invs]
    lines += [f"PROPERTY {p}" for p in props]
    lines.append("CHECK_DEADLOCK FALSE")
    return "\n".join(lines) + "\n"


EL_INVS = ["TypeOK", "RemoveKeepsOrder", "DrainSorted", "CmpTotal", "CmpTransitive"]


def model_checks(ctx: Ctx):
    q = ctx.quick
    maxev, times, prios, level = (4, [0, 1], [1, 5], 8) if q else (4, [0, 1, 2], [1, 5], 9)
    cfg = _cfg(maxev, times, prios, None, level, EL_INVS, ["HandsOutFirst"])
    r = tlc.run("MC_EventList", "c01_el.cfg", extra_files={"c01_el.cfg": cfg}, workers=16, timeout=1500)
    ctx.add_tlc("EventList", r)
    if not r.ok:
        raise tlc.MachineryError(f"EventList.tla violates its own property {r.violated}: specification bug")
    cfg = _cfg(maxev, times, prios, True, level, ["HeapInv", "NoDup"], ["Refines"])
    r = tlc.run("MC_EventListHeap", "c01_h.cfg", extra_files={"c01_h.cfg": cfg}, workers=16, timeout=1500,
                coverage=True)
    ctx.add_tlc("EventListHeap(remove+heapify) refines EventList", r)
    if not r.ok:
        raise tlc.MachineryError(f"EventListHeap.tla (repaired remove) violates {r.violated}")
    for act in ("Create", "AddAny", "RemoveAny", "PopFirst", "PeekFirst", "ContainsAny", "Size", "IsEmpty", "Clear"):
        if r.coverage.get(act, (0, 0))[0] == 0:
            raise tlc.MachineryError(f"vacuity: action {act} never taken in EventListHeap model")
    # sensitivity: remove() without re-heapify must be caught by the same model
    cfg = _cfg(4, [0, 1, 2], [1, 5], False, 9, ["HeapInv"], ["Refines"])
    r = tlc.run("MC_EventListHeap", "c01_p.cfg", extra_files={"c01_p.cfg": cfg}, workers=4, timeout=600)
    ctx.add_tlc("EventListHeap(list.remove only) [expected violation]", r)
    if r.ok:
        raise tlc.MachineryError("model insensitive: list.remove-only variant not caught")
    ctx.notes["pinned_remove_counterexample_steps"] = len(r.error_trace)


def tlaps(ctx: Ctx):
    wd = tlc.scratch()
    try:
        tlc.stage_specs(wd)
        p = subprocess.run(["tlapm", "--cleanfp", "EventOrderProofs.tla"], cwd=wd, capture_output=True,
                           text=True, timeout=300)
        out = p.stdout + p.stderr
        import re
        m = re.search(r"All (\d+) obligations? proved", out)
        if not m:
            raise tlc.MachineryError("TLAPS did not prove EventOrderProofs:\n" + out[-2000:])
        ctx.notes["tlaps"] = {"obligations": int(m.group(1)), "discharged": int(m.group(1)),
                              "theorems": ["Irreflexive", "Transitive", "Total", "Asymmetric", "CmpAgrees"],
                              "checker_cmd": "tlapm --cleanfp EventOrderProofs.tla"}
    finally:
        shutil.rmtree(wd, ignore_errors=True)


# ------------------------------------------------------------------ S -> C

def replay_ops(ctx: Ctx, ops, conc, origin, expect_layouts=None, deep=True):
    """ops: list of dict(a, e, ret, t?, p?) in spec vocabulary, with the spec's pending set
    after each op in 'pending' (list) when known.  Returns False on a violation."""
    d = ELDriver(conc)
    for k, o in enumerate(ops):
        a = o["a"]
        try:
            if a == "Create":
                ret = d.apply("Create", o["t"], o["p"])
            elif a in ("Add", "Remove", "Contains"):
                ret = d.apply(a, o["e"])
            else:
                ret = d.apply(a)
        except Exception as ex:  # the property says these calls answer, never raise
            ctx.violation(f"exception|{a}|{type(ex).__name__}",
                          f"{origin}: {a} raised {type(ex).__name__}: {ex} at step {k} ({conc})",
                          {"ops": ops[:k + 1], "conc": conc})
            return False
        if a != "Create" and ret != o["ret"]:
            ctx.violation(f"ret|{a}", f"{origin}: step {k} {a}({o.get('e')}) returned {ret}, specification says {o['ret']} ({conc} times)",
                          {"ops": ops[:k + 1], "conc": conc, "keys": d.keys})
            return False
        if "pending" in o:
            want = sorted(o["pending"])
            if deep or k == len(ops) - 1:
                got = d.membership()
                sz, emp = d.el.size(), d.el.is_empty()
                if got != want or sz != len(want) or emp != (len(want) == 0):
                    ctx.violation("membership", f"{origin}: after step {k} {a}: contains()={got} size={sz} is_empty={emp}, specification pending={want} ({conc})",
                                  {"ops": ops[:k + 1], "conc": conc, "keys": d.keys})
                    return False
                if "drain" in o:
                    try:
                        dr = d.drain_copy()
                    except Exception as ex:
                        ctx.violation(f"exception|drain|{type(ex).__name__}", f"{origin}: replaying the history on a fresh list raised {type(ex).__name__}: {ex} after step {k} ({conc})",
                                      {"ops": ops[:k + 1], "conc": conc})
                        return False
                    if dr != list(o["drain"]):
                        ctx.violation("drain", f"{origin}: after step {k} {a}: replayed copy drains {dr}, specification {list(o['drain'])} ({conc})",
                                      {"ops": ops[:k + 1], "conc": conc, "keys": d.keys})
                        return False
        if "heap" in o:
            lay = d.layout()
            key = "layout_agrees" if lay == list(o["heap"]) else "layout_diverged"
            ctx.binding[key] = ctx.binding.get(key, 0) + 1
    return True


def _spec_drain(keys, pending):
    return sorted(pending, key=lambda e: (keys[e - 1][0], -keys[e - 1][1], e))


def behaviour_to_ops(beh):
    """beh: list of (action, args, state) from the EventListHeap model."""
    ops = []
    for act, _, st in beh[1:]:
        o = dict(st["op"])
        created = st["created"]
        if o["a"] == "Create":
            o["t"], o["p"] = created[o["e"] - 1]["t"], created[o["e"] - 1]["p"]
        heap = list(st["heap"])
        o["heap"] = heap
        o["pending"] = sorted(heap)
        keys = [(c["t"], c["p"]) for c in created]
        o["drain"] = _spec_drain(keys, heap)
        ops.append(o)
    return ops


def s_to_c(ctx: Ctx):
    # (a) edge cover of a complete small graph
    cfg = _cfg(3, [0, 1], [1, 5], True, ctx.pick(6, 7), ["HeapInv"], [])
    nodes, edges, inits, r = tlc.dump_graph("MC_EventListHeap", "c01_g.cfg", extra_files={"c01_g.cfg": cfg},
                                            workers=4, timeout=900)
    ctx.add_tlc("EventListHeap graph for edge cover", r)
    paths, ncov = graphs.edge_cover(nodes, edges, inits)
    if ncov != len(edges):
        raise tlc.MachineryError("edge cover incomplete")
    ctx.notes["edge_cover"] = {"nodes": len(nodes), "edges": len(edges), "paths": len(paths)}
    nrep = 0
    for pi, p in enumerate(paths):
        beh = [("Init", None, nodes[inits[0]])] + [(edges[k][1], None, nodes[edges[k][2]]) for k in p]
        ops = behaviour_to_ops(beh)
        conc = CONCS[pi % len(CONCS)]
        nrep += 1
        ctx.distinct.add(("path", pi))
        if not replay_ops(ctx, ops, conc, f"edge-cover path {pi}", deep=False) and len(ctx.violations) > 10:
            break
    ctx.traces += nrep
    ctx.evaluations += nrep
    # (b) -simulate behaviours of a larger instance
    num = ctx.pick(400, 4000)
    cfg = _cfg(10, [0, 1, 2, 3], [1, 5, 10], True, 40, ["HeapInv"], [])
    behs, r = tlc.simulate("MC_EventListHeap", "c01_s.cfg", num=num, depth=36, seed=ctx.seed + 1,
                           extra_files={"c01_s.cfg": cfg}, timeout=900)
    ctx.add_tlc("EventListHeap -simulate", r)
    for bi, beh in enumerate(behs):
        ops = behaviour_to_ops(beh)
        if bi == 0:
            ctx.sample({"kind": "S->C behaviour", "ops": [{k: o[k] for k in ("a", "e", "ret")} for o in ops[:14]]})
        for conc in CONCS:
            ok = replay_ops(ctx, ops, conc, f"simulate behaviour {bi}")
            ctx.evaluations += 1
            if not ok:
                break
        ctx.traces += 1
        ctx.distinct.add(("sim", tuple((o["a"], o.get("e", 0), o.get("t"), o.get("p")) for o in ops)))
        if len(ctx.violations) > 10:
            break
    if len(behs) < num // 2:
        raise tlc.MachineryError(f"vacuity: only {len(behs)} behaviours generated")


# ------------------------------------------------------------------ C -> S

def random_history(rng, conc, nops=40, maxev=15):
    """Drive the real list with a seeded random history; record events in spec vocabulary.
    Histories run in phases (fill / churn / drain) so that heaps of depth 3-4 are built and
    interior removals are followed by further adds and pops."""
    d = ELDriver(conc)
    tr = []
    pending = set()      # harness bookkeeping ONLY to avoid double adds (stated assumption)
    ntimes = rng.choice([2, 3, 5, 9, 40])
    prios = rng.choice([[5], [1, 5], [1, 5, 10]])
    phase_plan = rng.choice([["mix"], ["fill", "churn", "drain"], ["fill", "churn", "fill", "churn"]])
    per = max(1, nops // len(phase_plan))
    for step in range(nops):
        phase = phase_plan[min(step // per, len(phase_plan) - 1)]
        n = len(d.events)
        choices = []
        notp = [e for e in range(1, n + 1) if e not in pending]
        if phase == "fill":
            if n < maxev:
                choices += ["Create"] * 4
            if notp:
                choices += ["Add"] * 8
            choices += ["PeekFirst"]
        elif phase == "churn":
            if pending:
                choices += ["RemoveIn"] * 6 + ["PopFirst"] * 2 + ["Drain"] * 3
            if notp:
                choices += ["Add"] * 4
            if n:
                choices += ["Cmp", "Contains"]
            choices += ["Size"]
        elif phase == "drain":
            choices += ["PopFirst"] * 5 + ["Drain", "IsEmpty", "PeekFirst"]
        else:
            if n < maxev:
                choices += ["Create"] * 3
            if notp:
                choices += ["Add"] * 6
            if pending:
                choices += ["RemoveIn"] * 4 + ["PopFirst"] * 4
            if n:
                choices += ["RemoveAny", "Contains", "Cmp"]
            choices += ["PeekFirst", "Size", "IsEmpty", "Drain", "PopFirst"]
            if rng.random() < 0.03:
                choices = ["Clear"]
        c = rng.choice(choices)
        if c == "Create":
            k, p = rng.randrange(ntimes), rng.choice(prios)
            d.apply("Create", k, p)
            tr.append({"a": "Create", "t": k, "p": p})
        elif c == "Add":
            e = rng.choice(notp)
            d.apply("Add", e); pending.add(e)
            tr.append({"a": "Add", "e": e})
        elif c in ("RemoveIn", "RemoveAny"):
            e = rng.choice(sorted(pending)) if c == "RemoveIn" else rng.randrange(1, n + 1)
            ret = d.apply("Remove", e); pending.discard(e)
            tr.append({"a": "Remove", "e": e, "ret": ret})
        elif c == "PopFirst":
            ret = d.apply("PopFirst"); pending.discard(ret)
            tr.append({"a": "PopFirst", "ret": ret})
        elif c == "Contains":
            e = rng.randrange(1, n + 1)
            tr.append({"a": "Contains", "e": e, "ret": d.apply("Contains", e)})
        elif c in ("PeekFirst", "Size", "IsEmpty"):
            tr.append({"a": c, "ret": d.apply(c)})
        elif c == "Clear":
            d.apply("Clear"); pending.clear()
            tr.append({"a": "Clear"})
        elif c == "Drain":
            tr.append({"a": "Drain", "seq": d.drain_copy()})
        elif c == "Cmp":
            x, y = rng.randrange(1, n + 1), rng.randrange(1, n + 1)
            tr.append(dict({"a": "Cmp", "x": x, "y": y}, **d.cmp_ops(x, y)))
    tr.append({"a": "Drain", "seq": d.drain_copy()})
    n = len(d.events)
    for _ in range(min(8, n * n)):
        x, y = rng.randrange(1, n + 1), rng.randrange(1, n + 1)
        tr.append(dict({"a": "Cmp", "x": x, "y": y}, **d.cmp_ops(x, y)))
    return tr


def c_to_s(ctx: Ctx):
    n = ctx.pick(1200, 12000)
    trs = []
    for i in range(n):
        try:
            trs.append(random_history(ctx.rng, CONCS[i % len(CONCS)], nops=ctx.rng.choice([25, 40, 60])))
        except Exception as ex:
            ctx.violation(f"exception|history|{type(ex).__name__}", f"random history {i} ({CONCS[i % len(CONCS)]} times): an event-list call raised {type(ex).__name__}: {ex}", None)
            trs.append([])
    rej, st = traces.validate("TraceEventList", "TraceEventList.cfg", trs, timeout=1500)
    ctx.states += st["distinct"]; ctx.transitions += st["generated"]
    ctx.tlc_runs.append({"model": "TraceEventList (batch)", **{k: (round(v, 2) if isinstance(v, float) else v) for k, v in st.items()}})
    ctx.traces += n
    ctx.evaluations += n
    for t in trs:
        ctx.distinct.add(("tr", tuple(sorted(e.items())[0] for e in t[:12]), len(t)))
    ctx.sample({"kind": "C->S recorded trace (prefix)", "events": trs[0][:12]})
    for r in rej:
        ev = r.event or {}
        ctx.violation(f"trace|{ev.get('a')}", f"recorded history {r.index} ({CONCS[r.index % len(CONCS)]} times): events 1..{r.upto} are a behaviour of EventList.tla, "
                      f"event {r.upto + 1} {ev} is not (invariant={getattr(r, 'invariant', None)})",
                      {"trace": r.trace, "explained": r.upto, "conc": CONCS[r.index % len(CONCS)]})
    if ctx.violations:
        return
    # binding self-test: corrupt one logged result in an accepted trace -> must be rejected
    good = [t for i, t in enumerate(trs) if i not in {r.index for r in rej}]
    bad = []
    for t in good[:40]:
        for k, e in enumerate(t):
            if e["a"] == "PopFirst" and e["ret"] != 0:
                t2 = [dict(x) for x in t]
                t2[k]["ret"] = 0
                bad.append(t2)
                break
    if bad:
        rj, _ = traces.validate("TraceEventList", "TraceEventList.cfg", bad, timeout=600)
        if len(rj) != len(bad):
            raise tlc.MachineryError(f"binding self-test failed: {len(bad) - len(rj)} corrupted traces accepted")
        ctx.binding["selftest_corrupted_rejected"] = len(bad)
    else:
        raise tlc.MachineryError("binding self-test could not build a corrupted trace")


def run_replay(ctx: Ctx):
    import json
    case = json.load(open(ctx.replay))["case"]
    if "ops" in case:
        replay_ops(ctx, case["ops"], case["conc"], "replay")
    else:
        rej, _ = traces.validate("TraceEventList", "TraceEventList.cfg", [case["trace"]])
        for r in rej:
            ctx.violation("trace|replay", repr(r), case)


def run(ctx: Ctx):
    ctx.assumptions += [
        "drivers never add an event that is already pending (the statement speaks of sets of events)",
        "projection: ids are creation ranks; times are 4*t integers; Duration compared through SimEvent only",
        "heap layout comparison (_event_list) is informational (binding), never a verdict",
    ]
    if ctx.replay:
        return run_replay(ctx)
    model_checks(ctx)
    tlaps(ctx)
    s_to_c(ctx)
    c_to_s(ctx)
