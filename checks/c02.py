"""C02 — DEVS execution: every scheduled, not cancelled event within the horizon runs exactly once,
in (time, -priority, scheduling order); handler clock = event time; illegal scheduling refused.

TLC: DEVS.tla, all handler programs up to the bound under one uninterrupted start().
S->C: simulated behaviours with rich request alphabets replayed on the float / int / Duration simulators.
C->S: seeded random programs run by start() and validated by TraceDEVS.tla.
"""
from __future__ import annotations

from harness.core import Ctx
from harness import drive_devs as dd
from checks import devs_common as dc

PID = "C02"


def listener_scheduling(ctx: Ctx, scale=1.0):
    """ClockListeners.tla: the clock discipline when TIME_CHANGED listeners schedule events too"""
    import random
    from harness import tlc, traces
    from harness import drive_tclisten as dt
    c = {"EndT": "3", "MaxEv": "5" if ctx.quick else "6", "Delays": "{0, 1, 2}", "Prios": "{1, 5}", "StepMode": "FALSE", "OldClockDuringTC": "FALSE"}
    invs, props = ["NothingInThePast", "AboutIsAnnounced", "TCIsEventTime"], ["ClockMonotone", "TCMonotone"]
    files, mod, cfg = tlc.mc_files("MC_ClockListeners", "ClockListeners", c, invariants=invs, properties=props)
    r = tlc.run(mod, cfg, extra_files=files, workers=8, timeout=1800)
    ctx.add_tlc("ClockListeners: handlers and TIME_CHANGED listeners schedule events", r)
    if not r.ok:
        raise tlc.MachineryError(f"ClockListeners.tla violates {r.violated}")
    files, mod, cfg = tlc.mc_files("MC_ClockListeners", "ClockListeners", dict(c, StepMode="TRUE"), invariants=invs, properties=props)
    r = tlc.run(mod, cfg, extra_files=files, workers=8, timeout=1800)
    ctx.add_tlc("ClockListeners, events executed by step()", r)
    if not r.ok:
        raise tlc.MachineryError(f"ClockListeners.tla (step mode) violates {r.violated}")
    # vacuity guard: with the pinned tree's deviation (the clock is moved only after the announcement) the specification is refuted
    files, mod, cfg = tlc.mc_files("MC_ClockListeners", "ClockListeners", dict(c, OldClockDuringTC="TRUE"), invariants=invs, properties=props)
    rb = tlc.run(mod, cfg, extra_files=files, workers=8, timeout=1800)
    if rb.ok:
        raise tlc.MachineryError("ClockListeners.tla with OldClockDuringTC = TRUE was not refuted")
    ctx.binding["clock_listeners_deviation_refuted"] = rb.violated
    nl = 0
    for step_mode in (False, True):
        trs, labels = [], []
        for i in range(int(scale * (ctx.pick(120, 1200) if not step_mode else ctx.pick(60, 600)))):
            conc = ("float", "int", "dur", "mixed")[i % 4]
            tr, errors = dt.run_model(conc, random.Random(ctx.seed * 7919 + i + (500000 if step_mode else 0)), end_t=ctx.rng.choice([4, 6]), step_mode=step_mode)
            ctx.evaluations += 1
            if errors:
                ctx.violation("listener_sched|" + errors[0].split()[0], f"listener-scheduling model {i} ({conc}{', step()' if step_mode else ''}): {errors}", {"trace": tr})
                continue
            trs.append(tr); labels.append(f"listener-scheduling model {i} ({conc} clock{', executed by step()' if step_mode else ''})")
            ctx.distinct.add(("tcl", step_mode, tuple((e["a"], e.get("by"), e.get("d")) for e in tr)))
        tc = {"EndT": "100000", "MaxEv": "100000", "Delays": "{0, 1, 2, 3}", "Prios": "{1, 5, 10}", "StepMode": "TRUE" if step_mode else "FALSE", "OldClockDuringTC": "FALSE"}
        tmod = "---- MODULE TraceClockListeners_gen ----\nEXTENDS TraceClockListeners\n" + "\n".join(f"c_{k} == {v}" for k, v in tc.items()) + "\n====\n"
        tcfg = ("SPECIFICATION TraceSpec\nCONSTANTS\n" + "\n".join(f"  {k} <- c_{k}" for k in tc) + "\nCONSTRAINT Progress\nPOSTCONDITION Post\n" +
                "INVARIANT InvNothingInThePast\nINVARIANT InvAboutIsAnnounced\nINVARIANT InvTCIsEventTime\nPROPERTY PropClockMonotone\nPROPERTY PropTCMonotone\nCHECK_DEADLOCK FALSE\n")
        rej, st = traces.validate("TraceClockListeners_gen", "TraceClockListeners_gen.cfg", trs, extra_files={"TraceClockListeners_gen.tla": tmod, "TraceClockListeners_gen.cfg": tcfg}, timeout=1800)
        ctx.states += st["distinct"]; ctx.transitions += st["generated"]
        ctx.tlc_runs.append({"model": f"TraceClockListeners (step mode {step_mode})", "traces": len(trs), **{k: (round(v, 2) if isinstance(v, float) else v) for k, v in st.items()}})
        ctx.traces += len(trs)
        for rj in rej:
            e = rj.event or {}
            key = f"listener_sched|{e.get('a')}|{e.get('by', '-')}"
            ctx.violation(key, f"{labels[rj.index]}: events 1..{rj.upto} are a behaviour of ClockListeners.tla, event {rj.upto + 1} {e} is not "
                               "(an event scheduled relative to the simulation time got another time, or the clock / the TIME_CHANGED stream went backwards)",
                          {"trace": rj.trace, "explained": rj.upto})
        nl += sum(1 for t in trs for e in t if e["a"] == "Sched" and e["by"] == "listener")
    ctx.notes["listener_scheduled_events"] = nl
    if trs and nl < 20 and not ctx.violations:
        raise tlc.MachineryError("vacuity: the TIME_CHANGED listeners scheduled almost nothing")


def segment_listeners(ctx: Ctx, scale=1.0):
    """RunListeners.tla: bounded segments; the listeners of START / TIME_CHANGED / WARMUP / STOP schedule and cancel events"""
    import random
    from harness import tlc, traces
    from harness import drive_tclisten as dt
    c = {"EndT": "3", "WarmT": "1", "MaxEv": "4" if ctx.quick else "5", "Delays": "{0, 1, 2}", "Prios": "{1, 5}", "Bounds": "{1, 2}", "StampLag": "FALSE"}
    invs = ["NothingInThePast", "StampIsNow", "ExactlyOnce", "ExecutedInOrder", "NeverBeyondEnd", "SegmentComplete"]
    props = ["ClockMonotone", "StampsMonotone", "StepIsOneEvent"]
    files, mod, cfg = tlc.mc_files("MC_RunListeners", "RunListeners", c, invariants=invs, properties=props)
    r = tlc.run(mod, cfg, extra_files=files, workers=8, timeout=1800)
    ctx.add_tlc("RunListeners: bounded segments, listeners of every run-thread notification schedule and cancel", r)
    if not r.ok:
        raise tlc.MachineryError(f"RunListeners.tla violates {r.violated}")
    # vacuity guard: a STOP stamped before the clock is moved to the bound is refuted
    files, mod, cfg = tlc.mc_files("MC_RunListeners", "RunListeners", dict(c, StampLag="TRUE"), invariants=invs, properties=props)
    rb = tlc.run(mod, cfg, extra_files=files, workers=8, timeout=1800)
    if rb.ok:
        raise tlc.MachineryError("RunListeners.tla with StampLag = TRUE was not refuted")
    ctx.binding["run_listeners_stamp_lag_refuted"] = rb.violated
    groups = {}
    for i in range(int(scale * ctx.pick(160, 1600))):
        conc = ("float", "int", "dur", "mixed", "float+6", "int-3", "durh", "int+9007199254740993")[i % 8]
        end_t, warm_t = ((4, 1), (6, 0), (5, 2), (6, 6))[(i + i // 8) % 4]
        tr, errors = dt.run_segmented(conc, random.Random(ctx.seed * 104729 + i), end_t=end_t, warm_t=warm_t)
        ctx.evaluations += 1
        if errors:
            ctx.violation("segment_listeners|" + errors[0].split()[0], f"segmented listener model {i} ({conc}, end {end_t}, warm-up {warm_t}): {errors}", {"trace": tr})
            continue
        groups.setdefault((end_t, warm_t), []).append((tr, f"segmented listener model {i} ({conc} clock, end {end_t}, warm-up {warm_t})"))
        ctx.distinct.add(("rl", tuple((e["a"], e.get("by"), e.get("d"), e.get("b")) for e in tr)))
    nl = {"START": 0, "STOP": 0, "TC": 0, "WARMUP": 0, "cancel": 0}
    for (end_t, warm_t), items in sorted(groups.items()):
        trs = [t for t, _ in items]; labels = [l for _, l in items]
        tc = {"EndT": str(end_t), "WarmT": str(warm_t), "MaxEv": "100000", "Delays": "{0, 1, 2, 3}", "Prios": "{1, 5, 10}", "Bounds": "0..%d" % end_t, "StampLag": "FALSE"}
        tmod = "---- MODULE TraceRunListeners_gen ----\nEXTENDS TraceRunListeners\n" + "\n".join(f"c_{k} == {v}" for k, v in tc.items()) + "\n====\n"
        tcfg = ("SPECIFICATION TraceSpec\nCONSTANTS\n" + "\n".join(f"  {k} <- c_{k}" for k in tc) + "\nCONSTRAINT Progress\nPOSTCONDITION Post\n" +
                "INVARIANT InvNothingInThePast\nINVARIANT InvStampIsNow\nINVARIANT InvExactlyOnce\nINVARIANT InvSegmentComplete\n"
                "PROPERTY PropClockMonotone\nPROPERTY PropStampsMonotone\nPROPERTY PropStepIsOneEvent\nCHECK_DEADLOCK FALSE\n")
        rej, st = traces.validate("TraceRunListeners_gen", "TraceRunListeners_gen.cfg", trs, extra_files={"TraceRunListeners_gen.tla": tmod, "TraceRunListeners_gen.cfg": tcfg}, timeout=1800)
        ctx.states += st["distinct"]; ctx.transitions += st["generated"]
        ctx.tlc_runs.append({"model": f"TraceRunListeners (end {end_t}, warm-up {warm_t})", "traces": len(trs), **{k: (round(v, 2) if isinstance(v, float) else v) for k, v in st.items()}})
        ctx.traces += len(trs)
        for rj in rej:
            e = rj.event or {}
            key = f"segment_listeners|{e.get('a')}|{e.get('by', '-')}"
            ctx.violation(key, f"{labels[rj.index]}: events 1..{rj.upto} are a behaviour of RunListeners.tla, event {rj.upto + 1} {e} is not "
                               "(a notification stamped with another time than the simulator time, an event scheduled by a listener that got another time than stamp + delay, "
                               "an event executed out of order / twice / not at all within its segment, or a clock that went back)",
                          {"trace": rj.trace, "explained": rj.upto})
        if not rej and not getattr(ctx, "_rl_selftest_done", False):
            # binding self-test: one recorded field corrupted (the time a STOP listener's event got / the STOP stamp) must be rejected
            import copy
            bad = []
            for t in trs:
                for k, e in enumerate(t):
                    if e["a"] == "Stop" and e["ts"] > 0:
                        t2 = copy.deepcopy(t); t2[k]["ts"] -= 1; bad.append(t2)
                        if k + 1 < len(t) and t[k + 1]["a"] == "Sched":
                            t3 = copy.deepcopy(t); t3[k + 1]["t"] += 1; bad.append(t3)
                        break
                if len(bad) >= 4:
                    break
            if bad:
                rj2, _ = traces.validate("TraceRunListeners_gen", "TraceRunListeners_gen.cfg", bad, extra_files={"TraceRunListeners_gen.tla": tmod, "TraceRunListeners_gen.cfg": tcfg}, timeout=600)
                if len(rj2) != len(bad):
                    raise tlc.MachineryError(f"self-test: {len(bad) - len(rj2)} of {len(bad)} corrupted segmented-listener traces were accepted by TraceRunListeners.tla")
                ctx.binding["run_listeners_corrupted_traces_rejected"] = len(bad)
                ctx._rl_selftest_done = True
        for t in trs:
            w = None
            for e in t:
                if e["a"] in ("Start", "StepStart", "Stop", "TC"):
                    w = {"Start": "START", "StepStart": "START", "Stop": "STOP", "TC": "TC"}[e["a"]]
                    nl["steps"] = nl.get("steps", 0) + (e["a"] == "StepStart")
                elif e["a"] == "Exec":
                    w = "WARMUP" if e["id"] == 1 else None
                elif e["a"] == "Sched" and e["by"] == "listener" and w:
                    nl[w] += 1
                elif e["a"] == "Cancel":
                    nl["cancel"] += 1
    ctx.notes["segment_listener_actions"] = nl
    if groups and min(nl.values()) < 5 and not ctx.violations:
        raise tlc.MachineryError(f"vacuity: the listeners of the segmented runs did almost nothing: {nl}")


def run(ctx: Ctx):
    ctx.assumptions += ["event identity = creation rank within the replication; times on the k/4 grid",
                        "controller waits for the run thread to be parked before observing (quiescence)",
                        "pending set read from the private heap array (informational if layout differs)"]
    if ctx.replay:
        return dc.replay_case(ctx)
    q = ctx.quick
    # 1. bounded-exhaustive: all programs
    base = dict(Cmds=["Start"], MaxCmds=2, MaxInits=1, EndT=3, WarmT=1)
    full = dict(Prios=[1, 5], RelDelays=[-1, 0, 2], AbsTimes=[], BadKinds=["nan_abs"])
    need = ("ExecNext", "SegmentEnd", "Emit", "AnnounceTC")
    dc.model_check(ctx, "DEVS programs: 1 op/handler, 5 events", dc.consts(MaxOps=1, MaxId=5, **full, **base), need_actions=need)
    if q:
        dc.model_check(ctx, "DEVS programs: 2 ops/handler, 3 events", dc.consts(MaxOps=2, MaxId=3, Prios=[5], RelDelays=[-1, 0, 2], AbsTimes=[], BadKinds=[], **base))
    else:
        dc.model_check(ctx, "DEVS programs: 2 ops/handler, 3 events, full alphabet", dc.consts(MaxOps=2, MaxId=3, **full, **base))
        dc.model_check(ctx, "DEVS programs: 2 ops/handler, 4 events", dc.consts(MaxOps=2, MaxId=4, Prios=[5], RelDelays=[0, 1], AbsTimes=[], BadKinds=[], **base))
        dc.model_check(ctx, "DEVS programs: 1 op/handler, 6 events", dc.consts(MaxOps=1, MaxId=6, Prios=[1, 5], RelDelays=[-1, 0, 2], AbsTimes=[3], BadKinds=[], **base))
    # 2. S->C
    sim_cfgs = [
        dc.consts(MaxId=8, MaxOps=2, Prios=[1, 5, 10], RelDelays=[0, 1], AbsTimes=[], BadKinds=[], Cmds=["Start"], MaxCmds=3, EndT=4, WarmT=2),
        dc.consts(MaxId=6, MaxOps=2, Prios=[5], RelDelays=[0, 1, 2], AbsTimes=[4], BadKinds=[], Cmds=["Start", "RunUpTo"], Bounds=[2, 3], MaxCmds=4, EndT=4, WarmT=1, EndRepOps=True),   # (events exactly at the end)
        dc.consts(MaxId=7, MaxOps=2, Prios=[5], RelDelays=[-1, 0, 2], AbsTimes=[0, 4], BadKinds=["nan_abs", "nan_rel", "str_abs", "neg_tiny", "reinit"], Cmds=["Start"], MaxCmds=3, EndT=4, WarmT=0),
        dc.consts(MaxId=9, MaxOps=2, Prios=[5, 10], RelDelays=[0, 1, 3], AbsTimes=[], BadKinds=[], Cmds=["Start"], MaxCmds=3, EndT=3, WarmT=3),
    ]
    behs = []
    for k, cs in enumerate(sim_cfgs):
        for b in dc.simulate(ctx, f"DEVS programs cfg{k}", cs, num=ctx.pick(80, 800), depth=40, seed=ctx.seed + 2 + k):
            behs.append((b, cs))
    groups = {}
    for bi, (beh, cs) in enumerate(behs):
        for conc in (dd.CONCS if bi % 3 == 0 else (dd.CONCS_OFF[bi % len(dd.CONCS_OFF)],)):
            tr = dc.replay(ctx, beh, conc, cs, f"behaviour {bi}")
            ctx.evaluations += 1
            if tr:
                groups.setdefault((cs["EndT"], cs["WarmT"], cs["Strategy"]), []).append((tr, f"S->C behaviour {bi} {conc}"))
        ctx.distinct.add(repr([dict(s["op"]) for _, _, s in beh if s["op"]["a"] == "Exec"]))
        if bi == 0:
            ctx.sample({"kind": "S->C behaviour (ops)", "ops": [dict(s["op"]) for _, _, s in beh[1:10]]})
        if len(ctx.violations) > 15:
            break
    # 3. C->S
    if len(ctx.violations) > 15:
        return          # the run already fails: skip the random runs (a broken tree makes them slow)
    n = ctx.pick(300, 3000)
    for i in range(n):
        conc = dd.CONCS_OFF[i % len(dd.CONCS_OFF)]
        end_t, warm_t = ctx.rng.choice([(4, 2), (6, 0), (5, 5)])
        wide = i % 3 == 2       # many pending events + frequent cancellations (interior removals from a deep heap)
        if wide:
            end_t, warm_t = 30, 3          # (initial events spread over 0..31: the shape of the heap matters)
        ctl = dc.random_run(ctx, ctx.rng, conc, end_t, warm_t, "pause", cmds=["Start"], ncmds=1,
                            maxev=ctx.rng.choice([24, 32]) if wide else ctx.rng.choice([6, 12, 20]), wide=wide, p_endrep=0.15 if i % 5 == 0 else 0.0,
                            p_cancel=0.0 if i % 6 == 5 else None)     # (every other wide program grows its heap by insertions only: no re-heapify in between)
        ctx.evaluations += 1
        if ctl.errors:
            ctx.violation(dc.err_key(ctl.errors), f"random program {i}: {ctl.errors}", {"trace": dd.clean_trace(ctl.trace)})
            continue
        groups.setdefault((end_t, warm_t, "pause"), []).append((dd.clean_trace(ctl.trace), f"random program {i} {conc}"))
        if i == 0:
            ctx.sample({"kind": "C->S trace (prefix)", "events": dd.clean_trace(ctl.trace)[:10]})
    dc.validate_groups(ctx, groups)
    listener_scheduling(ctx)
    segment_listeners(ctx)
    dc.selftest(ctx, groups)
