"""C13 — seed updates depend only on stream name, seed and replication number.

TLC: SeedUpdate.tla refusal / outcome table (updater kind x listed? x replication-number class).
C->S: the same seeded configurations are executed in several interpreter processes started with different
PYTHONHASHSEED values (and different dict listing orders); all children's events are concatenated into one
trace and TraceSeedUpdate.tla requires the computed seed to be one function of (name, original seed, r) and
the first draws one function of the seed; refusals leave the stream unchanged.  S->C: every row of the table
is executed.
"""
from __future__ import annotations

import json
import os
import subprocess
import tempfile

from harness import tlc, traces
from harness.core import Ctx, VERIF

PID = "C13"
NAMES = ["default", "arrivals", "service", "", "stream μ", "a" * 40, "Default", "x.y"]


def gen_cfgs(rng, n):
    cfgs = []
    for i in range(n):
        k = rng.choice([1, 2, 3, 4])
        names = rng.sample(NAMES, k)
        origs = {nm: str(rng.choice([0, 1, 10, 101, -7, 2 ** 31, 2 ** 64 + 3, 12345678901234567890])) for nm in names}
        if k >= 2 and rng.random() < 0.4:
            origs[names[1]] = origs[names[0]]          # two streams with one original seed
        listed = [nm for nm in names if rng.random() < 0.5]
        table = {nm: [str(rng.choice([1, 5, 9, 2 ** 40, -3, 77])) for _ in range(3)] for nm in listed}
        if listed and rng.random() < 0.25:
            table[rng.choice(listed)] = []                  # an EMPTY configured list: every replication is beyond it
        rest = [nm for nm in names if nm not in table]
        table2 = {nm: [str(rng.choice([2, 6, 10, 2 ** 41, -4, 78])) for _ in range(3)] for nm in rest if rng.random() < 0.5}
        cfgs.append({"id": str(i), "u": rng.choice(["simple", "table", "table", "chained", "custom", "shared"]), "names": names, "origs": origs,
                     "table": table, "table2": table2,
                     "rc": rng.choice(["negative", "first", "inside", "last", "beyond", "far", "illtyped", "inside", "last"]),
                     "bulk": rng.random() < 0.4, "again": rng.choice([None, "first", "inside", "last"])})
        if i % 7 == 3 and k >= 2:
            # two streams whose correct seeds coincide (one original seed, replication 0) in ONE update_seeds call of the simple updater:
            # a stream's seed does not depend on which other streams are in the set
            cfgs[-1].update(u=rng.choice(["simple", "shared"]), bulk=True, rc="first", again=None)
            cfgs[-1]["origs"][names[1]] = cfgs[-1]["origs"][names[0]]
        if i % 5 == 0 and k >= 3:
            # same listing order in every process: one stream under two names, or a refusal half-way through update_seeds
            c = dict(cfgs[-1], id=f"{i}f", fixed_order=True, bulk=True)
            if i % 10 == 0:
                c["alias"] = [(names[0], names[-1])]
                c["u"] = "simple"
                c["rc"] = "inside"
            else:
                c["u"] = "table"
                c["table"] = {names[1]: ["4", "5", "6"]}     # r = 3 is beyond names[1]'s list: refused for it only, half-way
                c["rc"] = "beyond"
            cfgs.append(c)
    return cfgs


def run_children(cfgs, hashseeds, rng):
    out = []
    d = tempfile.mkdtemp(prefix="c13_")
    try:
        procs = []
        for ci, hs in enumerate(hashseeds):
            mine = []
            for c in cfgs:
                c2 = dict(c)
                names = list(c["names"])
                if not c.get("fixed_order"):
                    rng.shuffle(names)      # listing order differs between processes
                c2["names"] = names
                mine.append(c2)
            f = os.path.join(d, f"cfg{ci}.json")
            json.dump(mine, open(f, "w"))
            env = dict(os.environ, PYTHONHASHSEED=str(hs))
            if hs == "random":
                env["PYTHONHASHSEED"] = "random"
            procs.append(subprocess.Popen(["/venv/bin/python", "-W", "ignore", os.path.join(VERIF, "harness", "child_seedupdate.py"), f, f"child{ci}:{hs}"],
                                          stdout=subprocess.PIPE, stderr=subprocess.PIPE, env=env, text=True))
        for p in procs:
            so, se = p.communicate(timeout=300)
            if p.returncode != 0:
                raise tlc.MachineryError("child failed: " + se[-800:])
            out.append(json.loads(so))
    finally:
        import shutil
        shutil.rmtree(d, ignore_errors=True)
    return out


def run(ctx: Ctx):
    ctx.assumptions += ["seeds and draws travel as strings; TLC decides equality (functional dependence) only",
                        "children are separate interpreter processes with PYTHONHASHSEED in {0, 1, 12345, random, ...}"]
    nodes, edges, inits, r = tlc.dump_graph("SeedUpdate", "SeedUpdate.cfg")
    ctx.add_tlc("SeedUpdate outcome table", r)
    rows = [n["row"] for n in nodes.values()]
    outcome = {(r_["u"], r_["l"], r_["rc"]): r_["out"] for r_ in rows}
    # S->C: execute the table (one configuration per row)
    cfgs = []
    for i, row in enumerate(rows):
        names = ["default", "service"]
        lists = {"default": ["11", "12", "13"], "service": ["21", "22", "23"]}
        table = {"listed": lists, "empty": {"default": [], "service": []}}.get(row["l"], {"other": ["1", "2", "3"]})
        table2 = lists if row["l"] == "fb_listed" else {"other2": ["4", "5", "6"]}
        cfgs.append({"id": f"row{i}", "u": row["u"], "names": names, "origs": {"default": "10", "service": "20"}, "table": table, "table2": table2,
                     "rc": row["rc"], "bulk": False})
    hashseeds = [0, 1, 12345, "random"] if ctx.quick else [0, 1, 2, 3, 12345, 999, "random", "random"]
    extra = gen_cfgs(ctx.rng, ctx.pick(150, 1500))
    results = run_children(cfgs + extra, hashseeds, ctx.rng)
    # verdicts per table row (S->C)
    for ci, evs in enumerate(results):
        for e in evs:
            if e["a"] != "Update":
                continue
            # outcome class observed
            if e["res"] not in ("ok", "error"):
                ctx.violation(f"exception|{e['u']}|{e['l']}|{e['rc']}|{e['res']}", f"child {e['child']}: update_seed({e['name']!r}, r={e['r']}) on the {e['u']} updater "
                              f"({e['l']}) raised {e['res']}", e)
    trace = [e for evs in results for e in evs]
    ctx.evaluations += len(trace)
    for e in trace:
        if e["a"] == "Update":
            ctx.distinct.add((e["u"], e["l"], e["rc"], e["name"], e["orig"]))
    ctx.sample({"kind": "update event", "event": trace[0]})
    ok_events = [e for e in trace if e["a"] == "Bulk" or e["res"] in ("ok", "error")]
    rej, st = traces.validate("TraceSeedUpdate", "TraceSeedUpdate.cfg", [ok_events], timeout=1800)
    ctx.states += st["distinct"]; ctx.transitions += st["generated"]
    ctx.tlc_runs.append({"model": "TraceSeedUpdate (all children in one trace)", "events": len(ok_events), **{k: (round(v, 2) if isinstance(v, float) else v) for k, v in st.items()}})
    ctx.traces += len(results)
    # a rejection stops at the first unexplained event: report it, drop it, and continue so that the rest is examined
    guard = 0
    cur = ok_events
    while rej and guard < 25:
        r0 = rej[0]
        e = r0.event or {}
        if e.get("a") == "Bulk":
            key, why = "bulk", "update_seeds() gives different seeds in different processes / listing orders"
        else:
            out = outcome.get((e.get("u"), e.get("l"), e.get("rc")))
            conforms = {"refused": e.get("res") == "error" and e.get("seed_after") == e.get("seed_before") and e.get("draws_after") == e.get("draws_before_peek"),
                        "from_list": e.get("res") == "ok" and e.get("seed_after") == e.get("want_from_list"),
                        "computed": e.get("res") == "ok"}.get(out, False)
            if not conforms:
                key, why = f"outcome|{e.get('u')}|{e.get('l')}|{e.get('rc')}", f"SeedUpdate.tla gives outcome {out!r} (refused: error and stream unchanged; from_list: the configured / delegated seed)"
            else:
                key, why = f"not_a_function|{e.get('u')}|{e.get('l')}", "the seed (or the first draws) for the same (name, original seed, r) differs from an earlier observation in another process / order / updater history"
        ctx.violation(key, f"event {r0.upto + 1} of the concatenated children trace: {json.dumps(e)[:400]} :: {why}", {"event": e})
        cur = cur[:r0.upto] + cur[r0.upto + 1:]
        rej, _ = traces.validate("TraceSeedUpdate", "TraceSeedUpdate.cfg", [cur], timeout=1800)
        guard += 1
    if ctx.violations:
        return
    # self-test: change one computed seed in one child
    bad = [dict(e) for e in ok_events]
    idx = [i for i, e in enumerate(bad) if e["a"] == "Update" and e["res"] == "ok" and e["l"] == "unlisted"]
    if len(idx) < 2:
        raise tlc.MachineryError("self-test: not enough computed updates")
    bad[idx[-1]]["seed_after"] = bad[idx[-1]]["seed_after"] + "1"
    rj, _ = traces.validate("TraceSeedUpdate", "TraceSeedUpdate.cfg", [bad], timeout=900)
    # the corrupted event is only detected if its key was seen before: find one whose key repeats
    keys = {}
    target = None
    for i in idx:
        k = (ok_events[i]["name"], ok_events[i]["orig"], ok_events[i]["r"])
        if k in keys:
            target = i
        keys[k] = i
    if target is None:
        raise tlc.MachineryError("self-test: no repeated (name, seed, r) among children")
    bad = [dict(e) for e in ok_events]
    bad[target]["seed_after"] = bad[target]["seed_after"] + "1"
    rj, _ = traces.validate("TraceSeedUpdate", "TraceSeedUpdate.cfg", [bad], timeout=900)
    if len(rj) != 1:
        raise tlc.MachineryError("binding self-test failed: corrupted seed accepted")
    ctx.binding["selftest_corrupted_rejected"] = 1
