"""C16 — quantity arithmetic is dimensionally sound and type safe.

TLC: Units.tla over UnitsData.tla generated from the live tables (_mul, _div, _sidict of every class):
MulSound / DivSound / DimensionallySound over all entries and all ordered pairs; SIString.tla:
Parse(Spell(sig, format)) = sig for all bounded signatures in all 8 print formats.
S->C: every ordered pair row (expected named type / generic SI, signature) is executed on real
quantities (*, /, +, -, comparisons, number and SI operands, as_quantity, operand integrity after reuse);
every spelled string is fed to the real parser and every signature printed by the real printer is parsed back.
"""
from __future__ import annotations

import itertools

from harness import tlc, units_data
from harness.core import Ctx

PID = "C16"
VALS = [2.0, -1.5, 0.125, 1.0e6]


def fmt_args(f):
    return (bool(f["div"]), "^" if f["hat"] else "", "." if f["dot"] else "")


def run_tables(ctx: Ctx):
    import pydsol.core.units as U
    txt, meta = units_data.generate()
    ctx.notes["tables"] = meta
    cfg = ("SPECIFICATION Spec\nINVARIANT TablesWellTyped\nINVARIANT MulSound\nINVARIANT DivSound\n"
           "INVARIANT DimensionallySound\nCHECK_DEADLOCK FALSE\n")
    r = tlc.run("Units", "Units16.cfg", extra_files={"UnitsData.tla": txt, "Units16.cfg": cfg}, workers=4, timeout=900)
    ctx.add_tlc("Units tables (generated UnitsData)", r)
    if not r.ok:
        detail = ""
        if r.error_trace:
            detail = str(dict(r.error_trace[-1][1]).get("row"))[:300]
        ctx.violation(f"table|{r.violated}", f"the live conversion tables violate {r.violated} of Units.tla {detail}", {"invariant": r.violated})
        return None
    nodes, edges, inits, r2 = tlc.dump_graph("Units", "Units16.cfg", extra_files={"UnitsData.tla": txt, "Units16.cfg": cfg}, workers=4, timeout=900)
    return [n["row"] for n in nodes.values()]


def execute_rows(ctx: Ctx, rows):
    import pydsol.core.units as U
    cls = {c.__name__: c for c in units_data.classes()}
    sig = {n: units_data.sig_of(c) for n, c in cls.items()}
    n = 0

    def bad(key, detail, row):
        ctx.violation(key, detail, {"a": row["a"], "b": row["b"]})

    def check_result(opname, res, exp, want_si, row, a, b):
        named = exp["named"]
        want_sig = list(exp["sig"])
        if named == "SI":
            if type(res) is not U.SI:
                return bad(f"{opname}|type", f"{row['a']} {opname} {row['b']} -> {type(res).__name__}, specification: generic SI value", row)
            got_sig = list(res.sisig())
        else:
            if type(res) is not cls[named]:
                return bad(f"{opname}|type", f"{row['a']} {opname} {row['b']} -> {type(res).__name__}, table says {named}", row)
            got_sig = list(type(res).sisig())
        if got_sig != want_sig:
            return bad(f"{opname}|signature", f"{row['a']} {opname} {row['b']} -> signature {got_sig}, specification {want_sig}", row)
        if float(res) != want_si:
            return bad(f"{opname}|si", f"{row['a']}({float(a)!r}) {opname} {row['b']}({float(b)!r}) -> si {float(res)!r}, expected {want_si!r}", row)

    for ri, row in enumerate(rows):
        A, B = cls[row["a"]], cls[row["b"]]
        va, vb = VALS[ri % 4], VALS[(ri // 4 + 1) % 4]
        try:
            a, b = A(va), B(vb)
            sa = a.asSI()
            for rep in range(2):            # the same operand objects are used twice: no aliasing of signatures
                check_result("*", a * b, row["mul"], float(a) * float(b), row, a, b)
                check_result("/", a / b, row["div"], float(a) / float(b), row, a, b)
                p = sa * b
                if type(p) is not U.SI or list(p.sisig()) != [x + y for x, y in zip(sig[row["a"]], sig[row["b"]])] or float(p) != float(a) * float(b):
                    bad("si*quantity", f"{row['a']}.asSI() * {row['b']} (use {rep + 1}) -> {type(p).__name__} {list(p.sisig()) if hasattr(p, 'sisig') else ''} si {float(p)!r}", row)
                q = sa / b
                if type(q) is not U.SI or list(q.sisig()) != [x - y for x, y in zip(sig[row["a"]], sig[row["b"]])] or float(q) != float(a) / float(b):
                    bad("si/quantity", f"{row['a']}.asSI() / {row['b']} (use {rep + 1}) -> {list(q.sisig())} si {float(q)!r}", row)
                p2 = b * sa
                if list(p2.sisig()) != [x + y for x, y in zip(sig[row["a"]], sig[row["b"]])]:
                    bad("quantity*si", f"{row['b']} * {row['a']}.asSI() -> {list(p2.sisig())}", row)
                if list(sa.sisig()) != sig[row["a"]] or list(A.sisig()) != sig[row["a"]]:
                    bad("operand_integrity", f"signature of the SI operand of type {row['a']} changed to {list(sa.sisig())} after being used in a product", row)
                    break
            # conversion of the generic value
            prod = a.asSI() * b.asSI()
            conv_ok = None
            try:
                back = prod.as_quantity(A)
                conv_ok = True
            except ValueError:
                conv_ok = False
            want = list(prod.sisig()) == sig[row["a"]]
            if conv_ok != want:
                bad("as_quantity", f"SI value with signature {list(prod.sisig())} as_quantity({row['a']}): accepted={conv_ok}, signatures equal={want}", row)
            sb = b.asSI()
            try:
                back = sb.as_quantity(B)
                if type(back) is not B or float(back) != float(b):
                    bad("as_quantity", f"{row['b']}.asSI().as_quantity({row['b']}) -> {type(back).__name__} {float(back)!r}", row)
            except Exception as ex:
                bad("as_quantity", f"{row['b']}.asSI().as_quantity({row['b']}) refused: {type(ex).__name__}: {ex}", row)
            try:
                sb.as_quantity(A)
                acc = True
            except ValueError:
                acc = False
            if acc != bool(row["sigeq"]):
                bad("as_quantity", f"{row['b']}.asSI().as_quantity({row['a']}): accepted={acc}, signatures equal={row['sigeq']}", row)
            # additive / ordering operations
            for opname, fn, num in (("+", lambda x, y: x + y, lambda x, y: x + y), ("-", lambda x, y: x - y, lambda x, y: x - y)):
                try:
                    r = fn(a, b)
                    ok = True
                except (ValueError, TypeError):
                    ok = False
                if ok != bool(row["same"]):
                    bad(f"{opname}|refusal", f"{row['a']} {opname} {row['b']}: accepted={ok}, same type={row['same']}", row)
                elif ok and (type(r) is not A or float(r) != num(float(a), float(b)) or r.unit != a.unit):
                    bad(f"{opname}|value", f"{row['a']} {opname} {row['b']} -> {type(r).__name__} {float(r)!r}", row)
                # generic SI values: refused unless the signatures are equal
                try:
                    r = fn(sa, sb)
                    ok = True
                except (ValueError, TypeError):
                    ok = False
                if ok != bool(row["sigeq"]):
                    bad(f"si{opname}si|refusal", f"SI[{row['a']}] {opname} SI[{row['b']}]: accepted={ok}, signatures equal={row['sigeq']}", row)
            for opname, fn in (("<", lambda x, y: x < y), ("<=", lambda x, y: x <= y), (">", lambda x, y: x > y), (">=", lambda x, y: x >= y)):
                try:
                    r = fn(a, b)
                    ok = True
                except TypeError:
                    ok = False
                if ok != bool(row["same"]):
                    bad("cmp|refusal", f"{row['a']} {opname} {row['b']}: accepted={ok}, same type={row['same']}", row)
                elif ok and r != fn(float(a), float(b)):
                    bad("cmp|value", f"{row['a']} {opname} {row['b']} -> {r}", row)
                try:
                    fn(sa, sb)
                    ok = True
                except TypeError:
                    ok = False
                if ok != bool(row["sigeq"]):
                    bad("sicmp|refusal", f"SI[{row['a']}] {opname} SI[{row['b']}]: accepted={ok}, signatures equal={row['sigeq']}", row)
            if row["same"]:
                # non-finite SI values: the six comparisons are those of the SI floats (IEEE: every ordering with NaN is False)
                nan, inf = float("nan"), float("inf")
                import math as _m
                for x, y in ((nan, 1.0), (1.0, nan), (nan, nan), (inf, inf), (-inf, inf), (inf, 1.0),
                             (0.1 + 0.2, 0.3), (1.0, _m.nextafter(1.0, 2.0)), (-5e-324, 0.0), (1e300, _m.nextafter(1e300, 0.0))):      # nearly equal is not equal
                    qx, qy = A(x), A(y)
                    for opname, fn in (("<", lambda p, q_: p < q_), ("<=", lambda p, q_: p <= q_), (">", lambda p, q_: p > q_), (">=", lambda p, q_: p >= q_),
                                       ("==", lambda p, q_: p == q_), ("!=", lambda p, q_: p != q_)):
                        if bool(fn(qx, qy)) != fn(x, y):
                            bad("cmp|value", f"{row['a']}({x!r}) {opname} {row['a']}({y!r}) -> {fn(qx, qy)}, the SI floats give {fn(x, y)}", row)
            if (a == b) != (bool(row["same"]) and float(a) == float(b)) or (a != b) == (a == b):
                bad("eq", f"{row['a']} == {row['b']} -> {a == b}", row)
            # numbers
            for k in (3, 0.5, 7, 49, 0.1, 1e-310):
                for a_ in (a, A(5.0), A(1e-300)):
                    r1, r2, r3 = a_ * k, k * a_, a_ / k
                    if type(r1) is not A or float(r1) != float(a_) * k or type(r2) is not A or float(r2) != float(a_) * k or type(r3) is not A or float(r3) != float(a_) / k:
                        bad("scaling", f"{row['a']}({float(a_)!r}) scaled by {k}: * -> {float(r1)!r} / {float(r2)!r} (SI floats: {float(a_) * k!r}), / -> {float(r3)!r} (SI floats: {float(a_) / k!r})", row)
            if ri % 41 == 0:
                inv = 2 / a
                want_sig = [-x for x in sig[row["a"]]]
                got = list(type(inv).sisig()) if not isinstance(inv, U.SI) else list(inv.sisig())
                if got != want_sig or float(inv) != 2 / float(a):
                    bad("number/quantity", f"2 / {row['a']} -> {type(inv).__name__} {got} {float(inv)!r}", row)
        except Exception as ex:
            bad(f"exception|{type(ex).__name__}", f"pair ({row['a']}, {row['b']}): unexpected {type(ex).__name__}: {ex}", row)
        n += 1
        ctx.distinct.add((row["a"], row["b"]))
    ctx.evaluations += n
    ctx.traces += n
    ctx.notes["pairs_executed"] = n
    ctx.sample({"kind": "row executed", "row": {"a": rows[0]["a"], "b": rows[0]["b"], "mul": dict(rows[0]["mul"]), "div": dict(rows[0]["div"])}})


def strings(ctx: Ctx):
    import pydsol.core.units as U
    nz = ctx.pick(3, 4)
    files, mod, cfg = tlc.mc_files("MC_SIString", "SIString", {"MaxExp": "3", "MaxNonZero": str(nz)}, invariants=["RoundTrip", "Refusals"])
    r = tlc.run(mod, cfg, extra_files=files, workers=16, timeout=3000)
    ctx.add_tlc(f"SIString round trip (<= {nz} non-zero exponents)", r)
    if not r.ok:
        raise tlc.MachineryError(f"SIString.tla violates {r.violated}")
    files, mod, cfg = tlc.mc_files("MC_SIString", "SIString", {"MaxExp": "3", "MaxNonZero": str(ctx.pick(2, 3))}, invariants=["RoundTrip"])
    nodes, edges, inits, r = tlc.dump_graph(mod, cfg, extra_files=files, workers=8, timeout=1800)
    n = agree = 0
    for node in nodes.values():
        row = node["row"]
        sig = list(row["sig"])
        for f, toks in row["sp"].items():
            s = "".join(toks)
            n += 1
            try:
                got = U.SI.str_to_sisig(s)
            except Exception as ex:
                ctx.violation("parse|refused", f"str_to_sisig({s!r}) raised {type(ex).__name__}: {ex}; specification: signature {sig}", {"s": s, "sig": sig})
                continue
            if list(got) != sig:
                ctx.violation("parse|value", f"str_to_sisig({s!r}) = {list(got)}, specification {sig}", {"s": s, "sig": sig})
                continue
            # parsing is a FUNCTION of the string: what a caller does with the list it was handed (here: an in-place edit) must not
            # change what the same string means afterwards, neither for the parser nor for quantities built from it
            try:
                if isinstance(got, list):
                    got[n % len(got)] += 7
                again = U.SI.str_to_sisig(s)
                built = U.SI(2.0, s).sisig()
                if list(again) != sig or list(built) != sig:
                    ctx.violation("parse|aliased", f"after an in-place edit of the list returned by str_to_sisig({s!r}) the string parses as {list(again)} and "
                                                   f"SI(2.0, {s!r}) has signature {list(built)}; specification {sig}", {"s": s, "sig": sig})
                    continue
            except Exception as ex:
                ctx.violation(f"parse|aliased|{type(ex).__name__}", f"re-parsing {s!r} after an in-place edit of the earlier result: {type(ex).__name__}: {ex}", {"s": s, "sig": sig})
                continue
            # the real printer, parsed back by the real parser
            try:
                v = U.SI(1.0, s)
                out = v.siunit(*fmt_args(f))
                back = U.SI.str_to_sisig(out)
                if list(back) != sig:
                    ctx.violation("roundtrip", f"signature {sig} printed as {out!r} parses back as {list(back)}", {"s": s, "sig": sig})
                if out == s:
                    agree += 1
            except Exception as ex:
                ctx.violation(f"roundtrip|{type(ex).__name__}", f"printing / re-parsing signature {sig} ({s!r}): {type(ex).__name__}: {ex}", {"s": s, "sig": sig})
    for s in ("m/s/s", "m-", "m2m", "x", "kgm2/s2x"):
        try:
            U.SI.str_to_sisig(s)
            ctx.violation("parse|accepts_malformed", f"str_to_sisig({s!r}) accepted", {"s": s})
        except ValueError:
            pass
    ctx.evaluations += n
    ctx.notes["strings_parsed"] = n
    ctx.binding["printer_equals_Spell"] = agree
    ctx.binding["printer_differs_from_Spell"] = n - agree


def run(ctx: Ctx):
    ctx.level = "model_checking"
    ctx.assumptions += ["UnitsData.tla is generated from the live module at check time (the implementation's tables are the validated artefact)",
                        "bitwise comparison of SI values is done by the projection; which type / signature must result is TLC's"]
    rows = run_tables(ctx)
    if rows:
        execute_rows(ctx, rows)
    strings(ctx)
