"""C11 — simulation statistics honour warm-up and replication end; publish true values.

TLC: SimStats.tla (on DEVS.tla + Stats.tla's exact getters): what SimCounter / SimTally / SimWeightedTally /
SimPersistent must report is derived from the executed sequence (handler events after the warm-up event; the
persistent closed at the end).  Exhaustive small configuration with PersistentSpan; -simulate prints the
expectation at every quiescent state.  S->C: behaviours replayed on real simulators whose model creates the
four statistics in construct_model; at every quiescent point all getters are compared with TLC's exact
values, the registry (model.get_output_statistic) and "published payload == getter at that moment" are checked.
C->S: random schedules (priorities at the warm-up instant, pauses, bounded runs) recorded; TraceDEVS.tla
(instantiating SimStats) validates the trace and prints the expectation for every recorded observation.
"""
from __future__ import annotations

import json
import math
from fractions import Fraction

from harness import tlc, tlaval
from harness.core import Ctx
from harness import drive_devs as dd
from harness import drive_simstats as ds
from harness import drive_stats as dst
from checks import devs_common as dc
from pydsol.core.pubsub import EventListener
from pydsol.core.interfaces import StatEvents

PID = "C11"
CMDS = ["Start", "RunUpTo", "Pause", "Step"]

GET = {"C": dst.C_GETTERS, "T": dst.TALLY_GETTERS, "W": dst.W_GETTERS, "P": dst.W_GETTERS}
PUB = {
    "C": {"N_EVENT": ("n", ()), "COUNT_EVENT": ("count", ())},
    "T": {ev: (nm.replace("_s", ""), (False,) if nm.endswith("_s") else ()) for nm, ev in dst.TALLY_EVENTS.items()},
    "W": {"N_EVENT": ("n", ()), "MIN_EVENT": ("min", ()), "MAX_EVENT": ("max", ()), "WEIGHTED_SUM_EVENT": ("weighted_sum", ()),
          "WEIGHTED_MEAN_EVENT": ("weighted_mean", ()), "WEIGHTED_POPULATION_STDEV_EVENT": ("weighted_stdev", ()),
          "WEIGHTED_POPULATION_VARIANCE_EVENT": ("weighted_variance", ()), "WEIGHTED_SAMPLE_STDEV_EVENT": ("weighted_stdev", (False,)),
          "WEIGHTED_SAMPLE_VARIANCE_EVENT": ("weighted_variance", (False,))},
}
PUB["P"] = PUB["W"]


class PubCheck(EventListener):
    """subscribed to a statistic's own events: every published payload must equal the getter at that moment"""

    def __init__(self, stat, kind, sink):
        self.stat, self.kind, self.sink = stat, kind, sink
        self.types = {}
        for nm, (meth, args) in PUB[kind].items():
            et = getattr(StatEvents, nm, None)
            if et is not None:
                self.types[et] = (nm, meth, args)
                stat.add_listener(et, self)

    def notify(self, event):
        nm, meth, args = self.types[event.event_type]
        try:
            now = getattr(self.stat, meth)(*args)
        except Exception as ex:
            self.sink.append((f"published|{self.kind}|{nm}|getter_raises", f"{meth}{args} raised {type(ex).__name__} inside the notification of {nm}"))
            return
        if not dst.same_float(event.content, now):
            self.sink.append((f"published|{self.kind}|{nm}", f"{self.kind}: published {nm} = {event.content!r} but {meth}{args} = {now!r} at that moment"))


class OneShot(EventListener):
    """a listener that unsubscribes itself the first time it is notified (subscribed BEFORE the statistics)"""

    def __init__(self, sim, et):
        self.sim, self.et = sim, et
        sim.add_listener(et, self)

    def notify(self, event):
        self.sim.remove_listener(self.et, self)


class PubModel(ds.StatModel):
    def construct_model(self):
        from pydsol.core.interfaces import ReplicationInterface
        self.oneshots = [OneShot(self.simulator, ReplicationInterface.WARMUP_EVENT), OneShot(self.simulator, ReplicationInterface.END_REPLICATION_EVENT)]
        super().construct_model()
        self.pub_problems = getattr(self, "pub_problems", [])
        self.pubs = [PubCheck(s, k, self.pub_problems) for k, s in self.stats.items()]


def tscale(conc):
    base = dd.Conc(conc).name
    return {"float": Fraction(1, 4), "int": Fraction(1), "dur": Fraction(1, 4), "mixed": Fraction(15)}[base]


def compare_stats(model, expect, conc):
    """real getters vs the specification's exact values"""
    out = []
    ts = tscale(conc)
    for kind, stat in model.stats.items():
        g = expect[kind]
        for name, meth, args in GET[kind]:
            got = dst.call(getattr(stat, meth), *args)
            if isinstance(got, Exception):
                out.append((f"getter_raises|{kind}|{name}|{type(got).__name__}", f"Sim statistic {kind}: {meth}{args} raised {type(got).__name__}: {got}"))
                continue
            want = dst.val(g[name])
            if kind == "P" and name == "weighted_sum" and isinstance(want, Fraction):
                want = want * ts
            if not dst.close(got, want):
                out.append((f"getter|{kind}|{name}", f"Sim statistic {kind}: {meth}{args} = {got!r}, specification {dst.describe(want)}"))
    if not model.registry_ok():
        out.append(("registry", "model.get_output_statistic(key) does not return the statistics created in construct_model"))
    for p in getattr(model, "pub_problems", [])[:3]:
        out.append(p)
    return out


def key_of(state):
    ex = tuple((e["id"], e["clk"]) for e in state["executed"])
    warm = next((i + 1 for i, e in enumerate(tlaval.fn_to_seq(state["ev"])) if e["kind"] == "W"), 0)
    closed = state["rs"] == "ENDED" and len(state["due"]) == 0
    return (ex, warm, closed)


def run(ctx: Ctx):
    ctx.assumptions += ["every executed handler makes one observation per statistic with values that are fixed functions of the event rank (small integers)",
                        "getters compared at 1e-9 relative with TLC's exact rationals; the persistent's weighted sum is scaled by the time unit of the clock type"]
    if ctx.replay:
        return dc.replay_case(ctx)
    q = ctx.quick
    c = dc.consts(MaxId=4, Cmds=["Start", "RunUpTo", "Pause"], Bounds=[2], MaxCmds=3, Prios=[5, 10], RelDelays=[0, 1], MaxOps=1, BadKinds=[], EndT=3, WarmT=1)
    files, mod, cfg = tlc.mc_files("MC_SimStats", "SimStats", dc.tla_consts(c), invariants=["AgreesWithReference", "PersistentSpan", "ExactlyOnce"], level=60)
    r = tlc.run(mod, cfg, extra_files=files, workers=16, timeout=1800)
    ctx.add_tlc("SimStats (exhaustive, warm-up inside the run)", r)
    if not r.ok:
        raise tlc.MachineryError(f"SimStats.tla violates {r.violated}")
    groups = {}
    bi = 0
    for k, (end_t, warm_t) in enumerate([(4, 2), (4, 0), (3, 3)]):
        cs = dc.consts(MaxId=7, Cmds=CMDS, Bounds=[1, 2, 3], MaxCmds=8, MaxInits=2, Prios=[1, 5, 10], RelDelays=[0, 1, 2], MaxOps=2, BadKinds=[], EndT=end_t, WarmT=warm_t)
        files, mod, cfg = tlc.mc_files("MC_SimStats_sim", "SimStats", dc.tla_consts(cs), invariants=["PrintExpect"], level=70)
        behs, r = tlc.simulate(mod, cfg, num=ctx.pick(70, 700), depth=70, seed=ctx.seed + 110 + k, extra_files=files, timeout=1800)
        ctx.add_tlc(f"SimStats -simulate end={end_t} warm={warm_t}", r)
        expect = {}
        for line in r.stdout.splitlines():
            if line.startswith('<<"EXPECT"'):
                v = tlaval.parse_value(line)
                expect[(tuple((e["id"], e["clk"]) for e in v[1]), v[2], bool(v[3]))] = v[4]
        nchecked = [0]

        def observer(ctl, want, a, expect=expect, conc_holder=[None]):
            if want["rs"] == "NOT_INITIALIZED":
                return []
            e = expect.get(key_of(want))
            if e is None:
                return []
            nchecked[0] += 1
            return compare_stats(ctl.model, e, ctl.conc.full)
        for beh in behs:
            conc = dd.CONCS_OFF_BASE[bi % len(dd.CONCS_OFF_BASE)]
            tr = dc.replay(ctx, beh, conc, cs, f"behaviour {bi}", model_factory=PubModel, observer=observer)
            ctx.evaluations += 1
            ctx.distinct.add(repr([dict(s["op"]) for _, _, s in beh if s["op"]["a"] != "Notif"]))
            if tr:
                groups.setdefault((end_t, warm_t, "pause"), []).append((tr, f"S->C behaviour {bi} {conc}"))
            bi += 1
            if len(ctx.violations) > 20:
                break
        ctx.notes[f"quiescent_points_compared_end{end_t}_warm{warm_t}"] = nchecked[0]
        if nchecked[0] < len(behs) // 2 and not ctx.violations:
            raise tlc.MachineryError("vacuity: statistics compared at too few quiescent points")
    # C->S
    if len(ctx.violations) > 15:
        return          # the run already fails: skip the random runs (a broken tree makes them slow)
    n = ctx.pick(200, 2500)
    digests = {}
    for i in range(n):
        conc = dd.CONCS_OFF_BASE[i % len(dd.CONCS_OFF_BASE)]
        end_t, warm_t = ctx.rng.choice([(4, 2), (6, 0), (5, 5), (6, 3)])
        ctl = dc.random_run(ctx, ctx.rng, conc, end_t, warm_t, "pause", cmds=CMDS, ncmds=ctx.rng.choice([2, 4, 8]),
                            maxev=ctx.rng.choice([5, 7, 9]), model_factory=PubModel, dispose=False, reinit=(i % 2 == 0))
        try:
            with dd.quiet():
                if not ctl.errors and ctl.sim.run_state.name != "ENDED" and ctx.rng.random() < 0.8:
                    k = 0
                    while ctl.sim.run_state.name != "ENDED" and k < 30 and not ctl.errors:
                        ctl.run_cmd("Start")
                        ctl.observe()
                        k += 1
        finally:
            pass
        ctx.evaluations += 1
        # record the real getters at every quiescent observation of an initialised simulator
        tr = []
        for e in ctl.trace:
            tr.append(e)
        problems = list(getattr(ctl.model, "pub_problems", []))
        last_digest = ctl.model.digest() if ctl.model.stats else None
        ctl.dispose()
        if ctl.errors:
            ctx.violation(dc.err_key(ctl.errors), f"random schedule {i}: {ctl.errors}", {"trace": dd.clean_trace(ctl.trace)})
            continue
        for p in problems[:2]:
            ctx.violation(p[0], f"random schedule {i} ({conc}): {p[1]}", {"trace": dd.clean_trace(ctl.trace)})
        ct = dd.clean_trace(ctl.trace)
        # ask TLC for the expectation at the LAST quiescent observation (the only one whose real getters we hold)
        idx = [k for k, e in enumerate(ct) if e["a"] == "Quiescent" and e["rs"] != "NOT_INITIALIZED"]
        nh = sum(1 for e in ct[(max([k for k, e in enumerate(ct) if e["a"] == "Initialize"] or [0])):] if e["a"] == "Exec" and e["kind"] == "H")
        if idx and last_digest is not None and nh <= 6:      # TLC integers are 32 bit: exact moments of more than 6 observations overflow
            ct[idx[-1]]["want_stats"] = 1
            digests[len(groups.get((end_t, warm_t, "pause"), []))] = None
        groups.setdefault((end_t, warm_t, "pause"), []).append((ct, {"name": f"random schedule {i} {conc}", "digest": last_digest, "conc": conc,
                                                                      "pos": idx[-1] + 1 if idx else 0, "registry": True}))
    compared = [0]

    def on_output(out, base, items):
        for line in out.splitlines():
            if line.startswith('<<"EXPECT"'):
                v = tlaval.parse_value(line)
                tid, pos, closed, exp = v[1], v[2], v[3], v[4]
                meta = items[base + tid - 1][1]
                if not isinstance(meta, dict) or meta.get("digest") is None or meta["pos"] != pos:
                    continue
                compared[0] += 1
                ts = tscale(meta["conc"])
                for kind, getters in meta["digest"].items():
                    g = exp[kind]
                    for name, hexv in getters.items():
                        if name not in g:
                            continue
                        want = dst.val(g[name])
                        if kind == "P" and name == "weighted_sum" and isinstance(want, Fraction):
                            want = want * ts
                        if isinstance(hexv, str) and hexv.startswith("ERR:"):
                            ctx.violation(f"getter_raises|{kind}|{name}", f"{meta['name']}: {kind}.{name} raised {hexv[4:]}", {"trace": items[base + tid - 1][0]})
                            continue
                        got = float("nan") if hexv == "nan" else (int(hexv) if not hexv.startswith(("0x", "-0x")) else float.fromhex(hexv))
                        if not dst.close(float(got), want):
                            ctx.violation(f"getter|{kind}|{name}", f"{meta['name']}: Sim statistic {kind}.{name} = {got!r} at the last observation, specification {dst.describe(want)}",
                                          {"trace": items[base + tid - 1][0]})
    dc.validate_groups(ctx, groups, print_stats=True, on_output=on_output)
    ctx.notes["recorded_runs_with_statistics_compared"] = compared[0]
    if compared[0] < n // 3 and not ctx.violations:
        raise tlc.MachineryError(f"vacuity: only {compared[0]} recorded runs had their statistics compared")
    dc.selftest(ctx, {k: [(t, m) for t, m in v] for k, v in groups.items()})
