"""C12 — random streams: reproducible, resettable, restorable, independent, in range.

TLC: Streams.tla state machine (3 streams, 2 seeds, save slots) with Independent / ResetReplays /
OrigNeverChanges; IntDraw.tla: exact table lo + floor((hi-lo+1)*k/16) for small ranges.
S->C: behaviours replayed on real MersenneTwister objects, equal coordinates must give equal uniforms;
IntDraw rows executed with a scripted generator.  C->S: random interleavings over a seed pool with huge /
negative seeds and ranges validated by TraceStreams.tla with a memo of uniforms per coordinate.
"""
from __future__ import annotations

from harness import tlc, traces
from harness.core import Ctx
from harness import drive_streams as ds

PID = "C12"
NAMES = ["a", "b", "c"]


def cfg(level):
    return tlc.mc_files("MC_Streams", "Streams", {"Streams": tlc.tla_set(NAMES), "Seeds": tlc.tla_set([1, 2]), "MaxPos": "3",
                                                  "Slots": tlc.tla_set([1, 2]), "NoSeed": "0"},
                        invariants=["TypeOK"], properties=["Independent", "OrigNeverChanges", "ResetReplays"], level=level)


def trace_files():
    mod = ("---- MODULE TraceStreams_gen ----\nEXTENDS TraceStreams\n"
           "c_Streams == {\"a\", \"b\", \"c\"}\nc_Slots == 1..9\n====\n")
    cfgt = ("SPECIFICATION TraceSpec\nCONSTANTS\n  Streams <- c_Streams\n  Seeds = {}\n  MaxPos = 1000000\n  Slots <- c_Slots\n  NoSeed = \"none\"\n"
            "CONSTRAINT Progress\nPOSTCONDITION Post\nCHECK_DEADLOCK FALSE\n")
    return {"TraceStreams_gen.tla": mod, "TraceStreams_gen.cfg": cfgt}


def replay(ctx, beh, seedmap, bi):
    d = ds.StreamsDriver()
    for _, _, st in beh[1:]:
        o = st["op"]
        a = o["a"]
        try:
            if a == "New":
                d.new(o["s"], seedmap[o["sd"]])
            elif a == "Draw":
                k = o["kind"]
                lo, hi = ctx.rng.choice(ds.RANGES)
                d.draw(o["s"], k, lo, hi)
            elif a == "SetSeed":
                d.set_seed(o["s"], seedmap[o["sd"]])
            elif a == "Reset":
                d.reset(o["s"])
            elif a == "Save":
                d.save(o["s"], o["k"])
            elif a == "Restore":
                d.restore(o["s"], o["k"])
            elif a == "Query":
                d.query(o["s"])
                e = d.tr[-1]
                if e["seed"] != str(seedmap[o["seed"]]) or e["orig"] != str(seedmap[o["orig"]]):
                    ctx.violation("query", f"behaviour {bi}: seed()/original_seed() = {e['seed']}/{e['orig']}, specification "
                                  f"{seedmap[o['seed']]}/{seedmap[o['orig']]}", {"trace": d.tr})
                    return None
        except Exception as ex:
            ctx.violation(f"exception|{a}|{type(ex).__name__}", f"behaviour {bi}: {a} raised {type(ex).__name__}: {ex}", {"trace": d.tr})
            return None
    return d.tr


class Scripted:
    """stands in for the wrapped random.Random: delivers exactly the scripted uniform"""

    def __init__(self, u):
        self.u = u
        self.calls = 0

    def random(self):
        self.calls += 1
        return self.u


def int_table(ctx: Ctx):
    from pydsol.core.streams import MersenneTwister
    den = 16
    files, mod, cfgn = tlc.mc_files("MC_IntDraw", "IntDraw", {"Los": tlc.tla_set([-7, -1, 0, 3]), "Widths": tlc.tla_set([1, 2, 3, 7, 10, 64]), "Den": str(den)},
                                    invariants=["InRange"])
    nodes, edges, inits, r = tlc.dump_graph(mod, cfgn, extra_files=files)
    ctx.add_tlc("IntDraw table", r)
    st = MersenneTwister(1)
    # the wrapped generator is found by its type (random.Random), not by its private name
    import random as _rnd
    gen_attr = next((k for k, v in vars(st).items() if isinstance(v, _rnd.Random)), None)
    if gen_attr is None:
        ctx.binding["int_table"] = "diverged: the stream does not wrap a random.Random instance"
        return
    n = 0
    for node in nodes.values():
        row = node["row"]
        s = MersenneTwister(1)
        setattr(s, gen_attr, Scripted(row["k"] / den))
        try:
            res = s.next_int(row["lo"], row["hi"])
            calls = getattr(s, gen_attr).calls
            setattr(s, gen_attr, Scripted(row["k"] / den))
            b = s.next_bool()
        except Exception as ex:
            ctx.violation(f"int_table|exception|{type(ex).__name__}", f"next_int({row['lo']},{row['hi']}) with uniform {row['k']}/{den}: {ex}", dict(row))
            continue
        n += 1
        if res != row["res"] or calls != 1:
            ctx.violation("int_table|value", f"next_int({row['lo']},{row['hi']}) with uniform {row['k']}/{den} -> {res} ({calls} uniforms), specification {row['res']} (1 uniform)", dict(row))
        if b != (row["bool"] == 1):
            ctx.violation("int_table|bool", f"next_bool with uniform {row['k']}/{den} -> {b}", dict(row))
    ctx.notes["int_table_rows"] = n
    ctx.evaluations += n
    # extreme uniforms: membership only
    for lo, hi in ds.RANGES + [(0, 10 ** 400), (-(10 ** 400), 5)]:
        size = "beyond_float" if hi - lo + 1 > 1.7e308 else str(lo)
        for u in (0.0, 5e-324, 2.0 ** -53, 0.5, 1 - 2.0 ** -53):
            s = MersenneTwister(1)
            setattr(s, gen_attr, Scripted(u))
            try:
                res = s.next_int(lo, hi)
                if not (lo <= res <= hi):
                    ctx.violation("int_extreme|range", f"next_int({lo},{hi}) with uniform {u!r} -> {res} outside the range", {"lo": str(lo), "hi": str(hi), "u": repr(u)})
            except Exception as ex:
                ctx.violation(f"int_extreme|{type(ex).__name__}|{size}", f"next_int({str(lo)[:12]}..,{str(hi)[:12]}..) with uniform {u!r} raised {type(ex).__name__}: {str(ex)[:100]}", {"lo": str(lo), "hi": str(hi), "u": repr(u)})


def random_trace(rng):
    d = ds.StreamsDriver()
    names = NAMES[: rng.choice([1, 2, 3])]
    pool = rng.sample(ds.SEED_POOL, rng.choice([1, 2, 3]))
    for nm in names:
        d.new(nm, rng.choice(pool))
    slots = []
    for _ in range(rng.choice([15, 30, 50])):
        nm = rng.choice(names)
        r = rng.random()
        if r < 0.45:
            k = rng.choice(["float", "int", "bool"])
            lo, hi = rng.choice(ds.RANGES)
            d.draw(nm, k, lo, hi)
        elif r < 0.55:
            d.set_seed(nm, rng.choice(pool))
        elif r < 0.67:
            d.reset(nm)
        elif r < 0.8:
            k = rng.randrange(1, 7)
            d.save(nm, k)
            slots.append(k)
        elif r < 0.92 and slots:
            d.restore(rng.choice(names), rng.choice(slots))
        else:
            d.query(nm)
    return d.tr


def run(ctx: Ctx):
    ctx.assumptions += ["seeds and large integers travel as decimal strings, uniforms as hex floats; only equality is decided by TLC",
                        "the uniform behind an int/bool draw is observed by save / next_float / restore on the same stream (recorded events)",
                        "range membership and the derivation of int/bool draws are exact-arithmetic flags computed by the projection"]
    if ctx.replay:
        import json
        case = json.load(open(ctx.replay))["case"]
        rej, _ = traces.validate("TraceStreams_gen", "TraceStreams_gen.cfg", [case["trace"]], extra_files=trace_files())
        for r in rej:
            ctx.violation("trace|replay", repr(r), case)
        return
    files, mod, cfgn = cfg(ctx.pick(7, 9))
    r = tlc.run(mod, cfgn, extra_files=files, workers=16, coverage=True, timeout=1800)
    ctx.add_tlc("Streams", r)
    if not r.ok:
        raise tlc.MachineryError(f"Streams.tla violates {r.violated}")
    for a in ("New", "Draw", "SetSeed", "Reset", "Save", "Restore", "Query"):
        if r.coverage.get(a, (0, 0))[0] == 0:
            raise tlc.MachineryError(f"vacuity: {a}")
    int_table(ctx)
    # S->C
    files, mod, cfgn = tlc.mc_files("MC_Streams_sim", "Streams", {"Streams": tlc.tla_set(NAMES), "Seeds": tlc.tla_set([1, 2, 3]), "MaxPos": "12",
                                                                  "Slots": tlc.tla_set([1, 2, 3]), "NoSeed": "0"}, invariants=["TypeOK"], level=70)
    behs, r = tlc.simulate(mod, cfgn, num=ctx.pick(400, 4000), depth=50, seed=ctx.seed + 12, extra_files=files)
    ctx.add_tlc("Streams -simulate", r)
    trs = []
    for bi, beh in enumerate(behs):
        pool = ctx.rng.sample(ds.SEED_POOL, 3)
        tr = replay(ctx, beh, {1: pool[0], 2: pool[1], 3: pool[2]}, bi)
        ctx.evaluations += 1
        if tr:
            trs.append(tr)
            ctx.distinct.add(repr([(e["a"], e.get("s"), e.get("kind")) for e in tr]))
    if trs:
        ctx.sample({"kind": "S->C replay trace (prefix)", "events": trs[0][:10]})
    # C->S
    n = ctx.pick(600, 6000)
    for i in range(n):
        try:
            trs.append(random_trace(ctx.rng))
        except Exception as ex:
            ctx.violation(f"exception|{type(ex).__name__}", f"random history {i}: {type(ex).__name__}: {ex}", None)
        ctx.evaluations += 1
    rej, st = traces.validate("TraceStreams_gen", "TraceStreams_gen.cfg", trs, extra_files=trace_files(), timeout=2400, chunk=2500)
    ctx.states += st["distinct"]; ctx.transitions += st["generated"]
    ctx.tlc_runs.append({"model": "TraceStreams (batch)", **{k: (round(v, 2) if isinstance(v, float) else v) for k, v in st.items()}})
    ctx.traces += len(trs)
    for rj in rej:
        ev = rj.event or {}
        why = ""
        if ev.get("a") == "Draw":
            why = " (range)" if ev.get("in_range") == 0 else " (derivation)" if ev.get("derived_ok") == 0 else " (uniform differs from the one seen at the same generator coordinate)"
        ctx.violation(f"trace|{ev.get('a')}|{ev.get('kind', '')}{why}", f"recorded history {rj.index}: events 1..{rj.upto} are a behaviour of Streams.tla, "
                      f"event {rj.upto + 1} {ev} is not{why}", {"trace": rj.trace, "explained": rj.upto})
    if ctx.violations:
        return
    # self-test
    bad = []
    rejected = {r_.index for r_ in rej}
    for i, t in enumerate(trs[:300]):
        if i in rejected:
            continue
        idx = [k for k, e in enumerate(t) if e["a"] == "Draw" and e["kind"] == "float"]
        if len(idx) >= 2:
            t2 = [dict(x) for x in t]
            t2[idx[-1]]["u"] = t2[idx[0]]["u"] if t2[idx[0]]["u"] != t2[idx[-1]]["u"] else "0x0.0p+0"
            # corrupting the last float draw only matters if its coordinate was seen before or is seen again; use a reset pattern
            t2 = t2 + [{"a": "Reset", "s": t2[idx[-1]]["s"]}]
            bad.append(t2)
        if len(bad) >= 10:
            break
    # deterministic corrupted trace: two streams, same seed, different first uniform
    bad.append([{"a": "New", "s": "a", "sd": "5"}, {"a": "New", "s": "b", "sd": "5"},
                {"a": "Draw", "s": "a", "kind": "float", "u": "0x1.0p-1", "in_range": 1, "derived_ok": 1},
                {"a": "Draw", "s": "b", "kind": "float", "u": "0x1.0p-2", "in_range": 1, "derived_ok": 1}])
    rj, _ = traces.validate("TraceStreams_gen", "TraceStreams_gen.cfg", bad[-1:], extra_files=trace_files(), timeout=600)
    if len(rj) != 1:
        raise tlc.MachineryError("binding self-test failed: twin disagreement accepted")
    ctx.binding["selftest_corrupted_rejected"] = 1
