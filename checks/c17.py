"""C17 — unit conversion is faithful for every declared unit of every quantity.

TLC: Units.tla table well-formedness over UnitsData.tla generated from the live module (_units, _baseunit,
_displayunits, _descriptions, __all__): base unit has factor one, every unit described, display spelling is
text, alias spellings share one factor, every advertised name exists.
C->S (exhaustive over classes x units, sampled over values): construction, si / displayvalue / unit / str(),
as_unit to every other unit keeps si bit-identical, comparison / neg / abs / add / sub act on si and keep the
left operand's unit, compound unit names agree with their components.
"""
from __future__ import annotations

import math
import re

from harness import tlc, units_data
from harness.core import Ctx

PID = "C17"
VALS = [0, 1, -2.5, 1e-3, 12345.678, 1e12, 1e-15, -3.3e-20, 7e25]
C17_INVS = ["BaseUnitHasFactorOne", "FactorsAreNumbers", "EveryUnitDescribed", "DisplayIsText", "AliasesShareFactor", "AdvertisedNamesExist"]


def structural(ctx: Ctx):
    txt, meta = units_data.generate()
    ctx.notes["tables"] = meta
    for inv in C17_INVS:
        cfg = f"SPECIFICATION Spec\nINVARIANT {inv}\nCHECK_DEADLOCK FALSE\n"
        r = tlc.run("Units", "Units17.cfg", extra_files={"UnitsData.tla": txt, "Units17.cfg": cfg}, workers=2, timeout=900)
        ctx.add_tlc(f"Units tables: {inv}", r)
        if not r.ok:
            ctx.violation(f"table|{inv}", f"the live unit tables violate {inv} of Units.tla ({offenders(inv)})", {"invariant": inv})


def offenders(inv):
    """name the entries (diagnostics only; the verdict is TLC's)"""
    import pydsol.core.units as U
    out = []
    for c in units_data.classes():
        for u in c._units:
            d = c._displayunits.get(u, u)
            if inv == "DisplayIsText" and not isinstance(d, str):
                out.append(f"{c.__name__}.{u}")
            if inv == "EveryUnitDescribed" and u not in c._descriptions:
                out.append(f"{c.__name__}.{u}")
    if inv == "AdvertisedNamesExist":
        out = [n for n in getattr(U, "__all__", []) if not hasattr(U, n)]
    return ", ".join(out[:8]) + (" ..." if len(out) > 8 else "")


def rel_close(x, y, tol=1e-12):
    if x == y:
        return True
    return abs(x - y) <= tol * max(abs(x), abs(y))


def numeric(ctx: Ctx):
    import pydsol.core.units as U
    n = 0
    by_unit = {}
    for c in units_data.classes():
        for u, f in c._units.items():
            by_unit.setdefault(u, []).append((c, f))
    for c in units_data.classes():
        units = list(c._units.items())
        for ui, (u, f) in enumerate(units):
            if not isinstance(f, (int, float)):
                continue
            vals = VALS if ctx.tier == "thorough" else [VALS[(ui + k) % len(VALS)] for k in range(3)]
            for v in vals:
                key = f"{c.__name__}"
                case = {"class": c.__name__, "unit": u, "value": v}
                try:
                    q = c(v, u)
                except Exception as ex:
                    ctx.violation(f"construct|{key}", f"{c.__name__}({v!r}, {u!r}) raised {type(ex).__name__}: {ex}", case)
                    continue
                n += 1
                if q.si != v * f or float(q) != v * f:
                    ctx.violation(f"si|{key}", f"{c.__name__}({v!r}, {u!r}).si = {q.si!r}, expected value*factor = {v * f!r}", case)
                if q.unit != u:
                    ctx.violation(f"unit|{key}", f"{c.__name__}({v!r}, {u!r}).unit = {q.unit!r}", case)
                if not rel_close(q.displayvalue, float(v)):
                    ctx.violation(f"displayvalue|{key}", f"{c.__name__}({v!r}, {u!r}).displayvalue = {q.displayvalue!r}", case)
                try:
                    s = str(q)
                    d = c._displayunits.get(u, u)
                    if isinstance(d, str) and not s.endswith(" " + d):
                        ctx.violation(f"str|{key}", f"str({c.__name__}({v!r}, {u!r})) = {s!r} does not mention the display spelling {d!r}", case)
                    repr(q)
                except Exception as ex:
                    ctx.violation(f"str|{key}", f"str({c.__name__}({v!r}, {u!r})) raised {type(ex).__name__}: {ex}", case)
                # re-expressing in other units keeps si bit-identical
                for (u2, f2) in (units if v == vals[0] else units[ui + 1: ui + 3]):
                    try:
                        q2 = q.as_unit(u2)
                        if isinstance(f2, (int, float)) and not rel_close(q2.displayvalue, q.si / f2, 1e-9):
                            ctx.violation(f"displayvalue|{key}", f"{c.__name__}({v!r}, {u!r}).as_unit({u2!r}).displayvalue = {q2.displayvalue!r}, si / factor = {q.si / f2!r}", case)
                        if q2.si != q.si or q2.unit != u2 or type(q2) is not c:
                            ctx.violation(f"as_unit|{key}", f"{c.__name__}({v!r}, {u!r}).as_unit({u2!r}): si {q2.si!r} != {q.si!r} or unit {q2.unit!r}", case)
                        # comparisons / arithmetic depend on si only and keep the left unit
                        w = c(1, u2)
                        import math as _m
                        bu = next((u_ for u_, f_ in c._units.items() if isinstance(f_, (int, float)) and f_ == 1), None)
                        near = c(_m.nextafter(q.si, _m.inf), bu) if bu is not None else q      # one ulp away: nearly equal is not equal
                        if (q == near) != (q.si == near.si) or (q != near) != (q.si != near.si) or (q < near) != (q.si < near.si):
                            ctx.violation(f"compare|{key}", f"{c.__name__}: comparison of nearly equal SI values {q.si!r} and {near.si!r} does not follow the SI floats", case)
                        if (q < w) != (q.si < w.si) or (q >= w) != (q.si >= w.si) or (q == q2) is not True or (q != q2):
                            ctx.violation(f"compare|{key}", f"comparison of {c.__name__} values in {u!r} and {u2!r} does not follow si", case)
                        a, s_ = q + w, q - w
                        if a.si != q.si + w.si or s_.si != q.si - w.si or a.unit != u or s_.unit != u:
                            ctx.violation(f"addsub|{key}", f"{c.__name__} {u!r} +/- {u2!r}: si {a.si!r}/{s_.si!r}, unit {a.unit!r}", case)
                    except Exception as ex:
                        ctx.violation(f"as_unit|{key}|{type(ex).__name__}", f"{c.__name__}({v!r}, {u!r}) with unit {u2!r}: {type(ex).__name__}: {ex}", case)
                try:
                    ng, ab = -q, abs(q)
                    if ng.si != -q.si or ab.si != abs(q.si) or ng.unit != u or ab.unit != u or type(ng) is not c:
                        ctx.violation(f"negabs|{key}", f"-/abs of {c.__name__}({v!r}, {u!r})", case)
                except Exception as ex:
                    ctx.violation(f"negabs|{key}|{type(ex).__name__}", f"-/abs of {c.__name__}({v!r}, {u!r}): {ex}", case)
            ctx.distinct.add((c.__name__, u))
            # compound unit names x/y whose components are units of other quantities
            m = re.fullmatch(r"([A-Za-z]+)/([A-Za-z]+)", u)
            if m and m.group(1) in by_unit and m.group(2) in by_unit:
                num, den = m.group(1), m.group(2)
                cands = [fn / fd for (cn, fn) in by_unit[num] for (cd, fd) in by_unit[den]
                         if isinstance(fn, (int, float)) and isinstance(fd, (int, float)) and fd != 0]
                if cands and not any(rel_close(f, x, 1e-12) for x in cands):
                    # several quantities may declare the same short unit name: only a factor that matches NO composition is wrong
                    sigs = {tuple(units_data.sig_of(cn)) for (cn, _) in by_unit[num]}
                    ctx.notes.setdefault("compound_unmatched", []).append(f"{c.__name__}.{u}")
                    want_sig = units_data.sig_of(c)
                    comps = [fn / fd for (cn, fn) in by_unit[num] for (cd, fd) in by_unit[den]
                             if [a - b for a, b in zip(units_data.sig_of(cn), units_data.sig_of(cd))] == want_sig]
                    if comps and not any(rel_close(f, x, 1e-12) for x in comps):
                        ctx.violation(f"compound|{c.__name__}", f"{c.__name__} unit {u!r} has factor {f!r}, its components give {comps[:3]}", {"class": c.__name__, "unit": u})
    ctx.evaluations += n
    ctx.traces += n
    ctx.notes["quantities_constructed"] = n
    ctx.sample({"kind": "(class, unit, value) checked", "case": {"class": "Length", "unit": "km", "value": 12345.678}})
    # the public list
    try:
        ns = {}
        exec("from pydsol.core.units import *", ns)
    except Exception as ex:
        ctx.violation("star_import", f"from pydsol.core.units import * raised {type(ex).__name__}: {ex}", None)


def run(ctx: Ctx):
    ctx.level = "other"
    ctx.assumptions += ["structural invariants are decided by TLC over the generated UnitsData.tla; numeric agreement (si bitwise, displayvalue 1e-12) by the projection",
                        "values are sampled (exhaustive over classes and units)"]
    structural(ctx)
    numeric(ctx)
    ctx.extra = None
