"""C06 — replications are isolated: re-initialising gives a fresh, reproducible run.

TLC: DEVS.tla with several initialize commands after arbitrary prior histories (steps, bounded runs,
pauses, fault pauses, ended); the program is fixed lazily per rank, so AgreesWithReference states that
every replication executes the reference sequence whatever happened before.
S->C: such behaviours replayed on a real simulator whose model creates SimCounter / SimTally /
SimWeightedTally / SimPersistent in construct_model.  C->S: random prior history, re-initialise, run to
the end; then the same model on a brand-new simulator; TraceDEVS.tla checks both against the
specification and the final statistics digest of every complete replication against the first one.
"""
from __future__ import annotations

import json

from harness.core import Ctx
from harness import drive_devs as dd
from harness import drive_simstats as ds
from checks import devs_common as dc

PID = "C06"
HIST = ["Start", "Step", "RunUpTo", "Pause"]


def finish_replication(ctl, limit=40):
    n = 0
    while ctl.sim.run_state.name != "ENDED" and n < limit and not ctl.errors:
        e = ctl.run_cmd("Start")
        ctl.observe()
        if e["res"] != "ok":
            break
        n += 1


def keyfn(ev, inv):
    if ev.get("a") == "Quiescent" and ev.get("stats"):
        return "trace|Quiescent|stats_or_state"
    if ev.get("a") == "Initialize":
        return "trace|Initialize|" + str(ev.get("res"))
    return None


def run(ctx: Ctx):
    ctx.assumptions += ["the model re-creates its statistics in construct_model and makes deterministic observations (functions of the event rank)",
                        "statistics are compared through all public getters rendered as hex floats"]
    if ctx.replay:
        return dc.replay_case(ctx)
    q = ctx.quick
    small = dict(Prios=[5], RelDelays=[0, 2], AbsTimes=[], BadKinds=[], MaxOps=1, EndT=3, WarmT=1)
    need = ("ExecNext", "SegmentEnd", "StepEnd", "Pause", "Step", "RunUpTo", "Start")
    dc.model_check(ctx, "DEVS re-initialisation after any history (2 inits)",
                   dc.consts(MaxId=3, Cmds=HIST, Bounds=[1], MaxCmds=5, MaxInits=2, **small), need_actions=need)
    dc.model_check(ctx, "DEVS re-initialisation after fault pauses (2 inits)",
                   dc.consts(MaxId=3, Cmds=["Start", "Step"], Bounds=[], MaxCmds=5 if q else 6, MaxInits=2, AllowFaults=True, **small))
    if not q:
        dc.model_check(ctx, "DEVS re-initialisation (3 inits)",
                       dc.consts(MaxId=3, Cmds=["Start", "Step", "Pause"], Bounds=[], MaxCmds=6, MaxInits=3, **small))
    groups = {}
    bi = 0
    cs = dc.consts(MaxId=7, MaxOps=2, Prios=[1, 5], RelDelays=[0, 1, 2], AbsTimes=[], BadKinds=["reinit"], Cmds=HIST, Bounds=[1, 2, 3],
                   MaxCmds=9, MaxInits=3, EndT=4, WarmT=2, AllowFaults=True)
    for beh in dc.simulate(ctx, "DEVS re-initialisation", cs, num=ctx.pick(200, 2000), depth=70, seed=ctx.seed + 60):
        conc = dd.CONCS_STATS[bi % len(dd.CONCS_STATS)]
        ninit = sum(1 for _, _, s in beh if s["op"]["a"] == "Initialize")
        tr = dc.replay(ctx, beh, conc, cs, f"behaviour {bi} [{ninit} initialisations]", model_factory=ds.StatModel)
        ctx.evaluations += 1
        if ninit >= 2:
            ctx.distinct.add(repr([dict(s["op"]) for _, _, s in beh if s["op"]["a"] != "Notif"]))
        if tr:
            groups.setdefault((cs["EndT"], cs["WarmT"], cs["Strategy"]), []).append((tr, f"S->C behaviour {bi} {conc}"))
        if ninit >= 2 and len(ctx.samples) < 1:
            ctx.sample({"kind": "S->C behaviour with re-initialisation", "ops": [dict(s["op"]) for _, _, s in beh if s["op"]["a"] not in ("Notif", "Exec")][:14]})
        bi += 1
        if len(ctx.violations) > 15:
            break
    if len(ctx.violations) > 15:
        return          # the run already fails: skip the random runs (a broken tree makes them slow)
    n = ctx.pick(200, 2500)
    for i in range(n):
        conc = dd.CONCS_STATS[i % len(dd.CONCS_STATS)]
        end_t, warm_t = ctx.rng.choice([(4, 2), (6, 0)])
        strat = "pause"
        ctl = dc.random_run(ctx, ctx.rng, conc, end_t, warm_t, strat, cmds=HIST, ncmds=ctx.rng.choice([0, 2, 4, 7]),
                            maxev=ctx.rng.choice([6, 12]), p_fault=ctx.rng.choice([0.0, 0.3]), model_factory=ds.StatModel, dispose=False, probe_starting=True)
        fresh = None
        try:
            with dd.quiet():
                if not ctl.errors:
                    e = ctl.initialize()
                    ctl.observe()
                    if e["res"] == "ok":
                        finish_replication(ctl)
                reg_before = [(k, id(v)) for k, v in ctl.model.output_statistics().items()]
                fresh = dd.SimCtl(conc, end_t, warm_t, strat, prog=dict(ctl.prog), init_ops=ctl.init_ops, model_factory=ds.StatModel)
                if not ctl.errors:
                    fresh.initialize()
                    fresh.observe()
                    finish_replication(fresh)
                    # another model instance on another simulator is another experiment: the first model still reports ITS statistics
                    reg_after = [(k, id(v)) for k, v in ctl.model.output_statistics().items()]
                    other = {id(v) for v in fresh.model.output_statistics().values()}
                    if reg_after != reg_before or (other & {i for _, i in reg_after}):
                        ctl.errors.append(f"registry_shared: the statistics the first model reports changed ({len(reg_before)} -> {len(reg_after)} entries, "
                                          f"{len(other & {i for _, i in reg_after})} shared with the other model) when a second model instance was initialised and run on another simulator")
        finally:
            ctl.dispose()
            if fresh:
                fresh.dispose()
        ctx.evaluations += 1
        errs = ctl.errors + (fresh.errors if fresh else [])
        tr = dd.clean_trace(ctl.trace) + [{"a": "NewSimulator"}] + dd.clean_trace(fresh.trace if fresh else [])
        if errs:
            ctx.violation(dc.err_key(errs),
                          f"random history {i}: {errs}", {"trace": tr})
            continue
        groups.setdefault((end_t, warm_t, strat), []).append((tr, f"random history {i} {conc} then fresh simulator"))
        if i == 0:
            ctx.sample({"kind": "C->S trace (commands)", "events": [{k: v for k, v in e.items() if k != "stats"} for e in tr if e["a"] not in ("Notif", "Exec")][:14]})
    dc.validate_groups(ctx, groups, keyfn=keyfn)
    dc.selftest(ctx, groups)
    if ctx.violations:
        return
    # second self-test: a corrupted statistics digest must be rejected
    from harness import traces as tv, tlc
    for key, items in groups.items():
        for t, _ in items:
            idx = [k for k, e in enumerate(t) if e["a"] == "Quiescent" and e.get("stats")]
            if len(idx) >= 2:
                t2 = [dict(x) for x in t]
                t2[idx[-1]]["stats"] = t2[idx[-1]]["stats"].replace("0x1", "0x3", 1) + " "
                rej, _ = tv.validate("TraceDEVS_gen", "TraceDEVS_gen.cfg", [t2], extra_files=dc.trace_cfg(key[0], key[1], key[2]), deque=True)
                if len(rej) != 1:
                    raise tlc.MachineryError("self-test: corrupted statistics digest accepted")
                ctx.binding["selftest_stats_digest_rejected"] = 1
                return
    raise tlc.MachineryError("self-test: no trace with two complete replications")
