"""C10 — weighted and time-weighted tallies compute weight / time integrals of their input.

TLC: Stats.tla[wtally|ttally]: all histories with zero weights, all-zero weights, repeated timestamps,
earlier timestamps (rejected), closing, use after closing, re-initialisation; exact rational getters;
TotalWeightIsSpan.  S->C: every transition executed on the plain and event-publishing classes.
"""
from harness.core import Ctx
from checks import stats_common as sc

PID = "C10"


def run(ctx: Ctx):
    ctx.assumptions += ["weights and timestamps scaled by powers of two (exact interval lengths)",
                        "the weighted mean when no weight is positive may be NaN or 0 (statement silent); variance must be NaN, never an exception"]
    q = ctx.quick
    sc.check_kind(ctx, "wtally", 4 if q else 5, max_paths=None if q else 80000)
    sc.check_kind(ctx, "ttally", 4 if q else 5, max_paths=None if q else 80000)
    if q:
        sc.check_kind(ctx, "ttally", 5, max_paths=8000, label="Stats[ttally] histories <= 5 (sampled paths)")
        sc.check_kind(ctx, "wtally", 5, vals=(1, 3), max_paths=4000, label="Stats[wtally] histories <= 5, values {1,3} (sampled paths + equal-epoch histories)")
