"""C05 — fault containment: a failing handler never loses, duplicates or reorders events.

TLC: DEVS.tla with AllowFaults: every handler may raise; Strategy "continue" (log/warn and continue)
and "pause" (warn and pause); AgreesWithReference compares with the fault-free reference run.
S->C / C->S as C02/C03, with injected faults; step() on a failing handler must return normally.
"""
from __future__ import annotations

from harness.core import Ctx
from harness import drive_devs as dd
from checks import devs_common as dc

PID = "C05"
CMDS = ["Start", "Step", "RunUpTo"]


def run(ctx: Ctx):
    ctx.assumptions += ["a fault is a RuntimeError raised by the handler after it performed its scheduling requests",
                        "LOG_AND_CONTINUE and WARN_AND_CONTINUE are one specification strategy ('continue')"]
    if ctx.replay:
        return dc.replay_case(ctx)
    q = ctx.quick
    small = dict(Prios=[5], RelDelays=[0, 2], AbsTimes=[], BadKinds=[], MaxOps=1, MaxInits=1, EndT=3, WarmT=1, AllowFaults=True)
    need = ("ExecNext", "SegmentEnd", "StepEnd", "Step", "RunUpTo", "Start")
    for strat in ("continue", "pause"):
        dc.model_check(ctx, f"DEVS faults ({strat})", dc.consts(MaxId=4, Cmds=CMDS, Bounds=[2], MaxCmds=4 if q else 5, Strategy=strat, **small),
                       need_actions=need)
    # handlers may switch the error strategy while the run is in progress
    dc.model_check(ctx, "DEVS faults with strategy switches", dc.consts(MaxId=3, Cmds=["Start", "Step"], Bounds=[], MaxCmds=3 if q else 4, Strategy="continue",
                                                                        StratOps=[0, 1], **dict(small, MaxOps=2, RelDelays=[1])))
    groups = {}
    bi = 0
    # (third configuration: the error strategy is a setting of the SIMULATOR: it survives a re-initialisation, so the faults of a second
    #  replication are contained under the strategy chosen before the first, InitializeWith leaves strat unchanged)
    for k, strat in enumerate(("continue", "pause", "continue")):
        cs = dc.consts(MaxId=7, MaxOps=2, Prios=[5], RelDelays=[0, 1, 2], AbsTimes=[], BadKinds=[], Cmds=CMDS, Bounds=[1, 2, 3, 4],
                       MaxCmds=8, EndT=4, WarmT=2, AllowFaults=True, Strategy=strat, StratOps=[0, 1], HStopOps=True)
        if k == 2:
            cs = dc.consts(MaxId=5, MaxOps=1, Prios=[5], RelDelays=[0, 1, 2], AbsTimes=[], BadKinds=[], Cmds=["Start", "RunUpTo"], Bounds=[2, 4],
                           MaxCmds=6, MaxInits=2, EndT=4, WarmT=2, AllowFaults=True, Strategy=strat, StratOps=[], HStopOps=False)
        for beh in dc.simulate(ctx, f"DEVS faults {strat}", cs, num=ctx.pick(120, 1500), depth=60, seed=ctx.seed + 50 + k):
            conc = dd.CONCS_OFF[bi % len(dd.CONCS_OFF)]
            real_strat = strat if strat == "pause" else ("continue", "warn_continue")[bi % 2]
            csr = dict(cs, Strategy=real_strat)
            nf = sum(1 for _, _, s in beh if s["op"]["a"] == "Exec" and s["op"]["raise"])
            tr = dc.replay(ctx, beh, conc, csr, f"behaviour {bi} [{real_strat}, {nf} faults]")
            ctx.evaluations += 1
            ctx.distinct.add(repr([dict(s["op"]) for _, _, s in beh if s["op"]["a"] != "Notif"]))
            if tr:
                groups.setdefault((cs["EndT"], cs["WarmT"], strat), []).append((tr, f"S->C behaviour {bi} {conc} {real_strat}"))
            if nf and len(ctx.samples) < 2:
                ctx.sample({"kind": "S->C behaviour with faults", "strategy": real_strat,
                            "ops": [dict(s["op"]) for _, _, s in beh if s["op"]["a"] != "Notif"][:10]})
            bi += 1
            if len(ctx.violations) > 15:
                break
    if len(ctx.violations) > 15:
        return          # the run already fails: skip the random runs (a broken tree makes them slow)
    n = ctx.pick(250, 3000)
    nfault_runs = 0
    for i in range(n):
        conc = dd.CONCS_OFF[i % len(dd.CONCS_OFF)]
        strat = ("continue", "warn_continue", "pause")[i % 3]
        end_t, warm_t = ctx.rng.choice([(4, 2), (6, 0)])
        ctl = dc.random_run(ctx, ctx.rng, conc, end_t, warm_t, strat, cmds=CMDS, ncmds=ctx.rng.choice([3, 6, 10]),
                            maxev=ctx.rng.choice([6, 12]), p_fault=ctx.rng.choice([0.15, 0.4, 1.0]), p_strat=ctx.rng.choice([0.0, 0.3]),
                            reinit=i % 4 == 1)        # (a quarter of the runs re-initialise: the strategy in force must survive)
        ctx.evaluations += 1
        if ctl.errors:
            ctx.violation(dc.err_key(ctl.errors), f"random run {i}: {ctl.errors}", {"trace": dd.clean_trace(ctl.trace)})
            continue
        if any(e["a"] == "Exec" and e["raise"] for e in ctl.trace):
            nfault_runs += 1
        groups.setdefault((end_t, warm_t, "pause" if strat == "pause" else "continue"), []).append(
            (dd.clean_trace(ctl.trace), f"random run {i} {conc} {strat}"))
    ctx.notes["random_runs_with_faults"] = nfault_runs
    dc.validate_groups(ctx, groups)
    dc.selftest(ctx, groups)
