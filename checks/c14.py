"""C14 — draws are a pure function of parameters and stream output, within the support.

TLC: Dist.tla tables (constructor domain per class and parameter regime; support per class; all scripted
prefixes over the alphabet of extreme uniforms) and DistState.tla (stream pointer / normal cache machine).
S->C: every table row is executed with a counting scripted stream (must terminate, not raise, land in the
support); DistState behaviours are replayed on real instances over counting streams (only the current stream
is consumed, nothing when a cached gaussian is handed out, the old stream never again after set_stream);
twin instances on equally seeded streams must agree draw by draw (purity, instance isolation).
"""
from __future__ import annotations

import math

from harness import tlc
from harness.core import Ctx
from harness import drive_dist as dd
from harness.tlc import tla_set as S

PID = "C14"
VALID = [k for k in dd.PARAMS]


def tables(ctx: Ctx):
    files, mod, cfg = tlc.mc_files("MC_Dist", "Dist", {"MaxPrefix": str(ctx.pick(2, 3))})
    nodes, edges, inits, r = tlc.dump_graph(mod, cfg, extra_files=files, workers=8, timeout=1800)
    ctx.add_tlc("Dist tables (domain x support x scripted prefixes)", r)
    rows = [n["row"] for n in nodes.values()]
    ndraw = 0
    for row in rows:
        cls, reg = row["cls"], row["reg"]
        args = dd.PARAMS[(cls, reg)]
        if row["t"] == "construct":
            st = dd.ScriptedStream([])
            try:
                d = dd.make(cls, reg, st)
                got = "accept"
            except (TypeError, ValueError):
                got = "reject"
            except Exception as ex:
                got = f"raised:{type(ex).__name__}"
            ok = (row["want"] == "either" and got in ("accept", "reject")) or got == row["want"]
            if ok and got == "accept" and row["want"] != "either":
                pass
            if ok and got == "accept" and row["want"] == "either":
                # an accepted object must be usable: the first draws must not raise an unrelated exception
                try:
                    for _ in range(3):
                        d.draw()
                except Exception as ex:
                    ctx.violation(f"usable|{cls}|{reg}|{type(ex).__name__}", f"{cls}{args} was accepted but draw() raised {type(ex).__name__}: {ex}", {"cls": cls, "reg": reg})
            if not ok:
                ctx.violation(f"construct|{cls}|{reg}|{got}", f"{cls}{args}: constructor -> {got}, specification (documented domain) -> {row['want']}", {"cls": cls, "reg": reg})
            continue
        prefix = [dd.LETTER[x] for x in row["prefix"]]
        st = dd.ScriptedStream(prefix)
        ndraw += 1
        try:
            d = dd.make(cls, reg, st)
        except Exception:
            continue        # reported once by the regime's construct row
        outcomes = []
        for k in range(3):          # three consecutive draws: the prefix may be spread over them
            before = st.n
            st.consumed = []
            try:
                x = d.draw()
                where = dd.classify(row["support"], cls, args, x)
            except dd.NonTerminating:
                where, x = "nonterminating", None
            except Exception as ex:
                where, x = f"raised:{type(ex).__name__}", None
            if where != "inside":
                cons = st.consumed
                trig = ("zero" if 0.0 in cons else "subnormal" if 5e-324 in cons else "half_half" if cons[:2] == [0.5, 0.5]
                        else "eps" if 2.0 ** -53 in cons else "one_minus" if (1.0 - 2.0 ** -53) in cons else "ordinary")
                ctx.violation(f"draw|{cls}|{reg}|{where}|{trig}",
                              f"{cls}{args} draw {k + 1} with stream prefix {list(row['prefix'])} (consumed {st.consumed[:6]}) -> {where} {x!r}; support: {row['support']}",
                              {"cls": cls, "reg": reg, "prefix": list(row["prefix"]), "draw": k})
                break
        ctx.distinct.add((cls, reg, tuple(row["prefix"])))
    ctx.evaluations += len(rows)
    ctx.traces += ndraw
    ctx.notes["table_rows"] = {"construct": len(rows) - ndraw, "draw": ndraw}
    ctx.sample({"kind": "table row", "row": {k: (list(v) if isinstance(v, tuple) else v) for k, v in rows[len(rows) // 2].items()}})


CLASSES_STATE = [("DistNormal", "std"), ("DistLogNormal", "std"), ("DistExponential", "default"), ("DistBeta", "gt1"), ("DistErlang", "k12"),
                 ("DistPearson6", "gt1"), ("DistGamma", "lt1"), ("DistPoisson", "small"), ("DistPearson5", "gt1"), ("DistTriangular", "inside"),
                 ("DistNormalTrunc", "two_sided"), ("DistBinomial", "phalf"), ("DistConstant", "float"), ("DistDiscreteUniform", "range"),
                 ("DistGeometric", "phalf"), ("DistNegBinomial", "phalf"), ("DistWeibull", "gt1"), ("DistUniform", "unit"), ("DistBernoulli", "phalf"),
                 ("DistErlang", "k3"), ("DistGamma", "gt1"), ("DistGamma", "eq1")]


def state_machine(ctx: Ctx):
    insts = ["i1", "i2", "i3"]
    files, mod, cfg = tlc.mc_files("MC_DistState", "DistState", {"Insts": S(insts), "Strms": S(["s1", "s2"]), "Caching": S(["i1"]), "MaxOps": "6"},
                                   properties=["OnlyOwnStream"])
    r = tlc.run(mod, cfg, extra_files=files, workers=8, timeout=900)
    ctx.add_tlc("DistState (3 instances, 2 streams)", r)
    if not r.ok:
        raise tlc.MachineryError(f"DistState violates {r.violated}")
    files, mod, cfg = tlc.mc_files("MC_DistState", "DistState", {"Insts": S(insts), "Strms": S(["s1", "s2", "s3"]), "Caching": S(["i1", "i2"]), "MaxOps": "14"})
    behs, r = tlc.simulate(mod, cfg, num=ctx.pick(400, 4000), depth=15, seed=ctx.seed + 14, extra_files=files)
    ctx.add_tlc("DistState -simulate", r)
    nonc = [c for c in CLASSES_STATE if c[0] not in ("DistNormal", "DistLogNormal")]
    for bi, beh in enumerate(behs):
        rng = ctx.rng
        # i1, i2 are of the caching (normal) family, i3 any other class; a TWIN system is driven in lockstep
        kinds = {"i1": ("DistNormal", "std") if bi % 2 else ("DistLogNormal", "std"), "i2": ("DistLogNormal", "shifted") if bi % 3 else ("DistNormal", "shifted"),
                 "i3": nonc[bi % len(nonc)]}
        seeds = {"s1": 11 + bi, "s2": 23 + bi, "s3": 37 + bi}
        sysA = {s: dd.CountingStream(sd) for s, sd in seeds.items()}
        sysB = {s: dd.CountingStream(sd) for s, sd in seeds.items()}
        init = beh[0][2]["ptr"]
        A = {i: dd.make(kinds[i][0], kinds[i][1], sysA[init[i]]) for i in insts}
        B = {i: dd.make(kinds[i][0], kinds[i][1], sysB[init[i]]) for i in insts}
        ops = []
        ok = True
        for _, _, st in beh[1:]:
            op = st["op"]
            ops.append(dict(op))
            if op["a"] == "SetStream":
                A[op["i"]].stream = sysA[op["s"]]
                B[op["i"]].stream = sysB[op["s"]]
                continue
            i = op["i"]
            before = {s: sysA[s].count for s in sysA}
            try:
                xa = A[i].draw()
                xb = B[i].draw()
            except Exception as ex:
                ctx.violation(f"state|raise|{kinds[i][0]}|{type(ex).__name__}", f"behaviour {bi}: {kinds[i][0]} draw raised {type(ex).__name__}: {ex} after {ops[-6:]}", {"ops": ops})
                ok = False
                break
            delta = {s: sysA[s].count - before[s] for s in sysA}
            others = {s: d for s, d in delta.items() if s != op["s"] and d != 0}
            if others:
                ctx.violation(f"state|foreign_stream|{kinds[i][0]}", f"behaviour {bi}: draw of {i} ({kinds[i][0]}) pointed at {op['s']} consumed from {others} after {ops[-6:]}", {"ops": ops})
                ok = False
                break
            if (delta[op["s"]] == 0) != (op["consumes"] == "none") and kinds[i][0] != "DistConstant":
                ctx.violation(f"state|consumption|{kinds[i][0]}", f"behaviour {bi}: draw of {i} ({kinds[i][0]}) consumed {delta[op['s']]} uniforms, specification: {op['consumes']} after {ops[-6:]}",
                              {"ops": ops})
                ok = False
                break
            same = (xa == xb) or (isinstance(xa, float) and isinstance(xb, float) and math.isnan(xa) and math.isnan(xb))
            if not same:
                ctx.violation(f"state|twin|{kinds[i][0]}", f"behaviour {bi}: twin instances on equally seeded streams drew {xa!r} and {xb!r} after {ops[-6:]}", {"ops": ops})
                ok = False
                break
        ctx.evaluations += 1
        ctx.distinct.add(repr(ops))
        if len(ctx.violations) > 60:
            break
    ctx.traces += len(behs)
    # instance isolation: interleaving draws of two instances of one class on DIFFERENT streams does not change either sequence
    for (cls, reg) in CLASSES_STATE:
        s1, s2 = dd.CountingStream(5), dd.CountingStream(6)
        a, b = dd.make(cls, reg, s1), dd.make(cls, reg, s2)
        inter = []
        for k in range(12):
            inter.append(a.draw())
            b.draw()
            if k % 3 == 0:
                b.draw()
        solo = dd.make(cls, reg, dd.CountingStream(5))
        ref = [solo.draw() for _ in range(12)]
        if [repr(x) for x in inter] != [repr(x) for x in ref]:
            ctx.violation(f"isolation|{cls}", f"{cls}: draws of an instance change when another instance of the class draws in between: {inter[:4]} vs {ref[:4]}", {"cls": cls})
        ctx.evaluations += 1


def run(ctx: Ctx):
    ctx.assumptions += ["scripted streams: finite extreme prefix + fixed benign tail, consumption cap 20000 (= verdict 'nonterminating')",
                        "support membership is classified by the projection; which class / regime must accept and which support applies is the specification's",
                        "parameter domains follow the constructors' documented Raises clauses"]
    tables(ctx)
    state_machine(ctx)
