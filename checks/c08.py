"""C08 — publish/subscribe: exactly the subscribers at the moment of firing, once, in order;
payload validation table.

1. TLC: PubSub.tla bounded-exhaustive (2 types, 3 listeners, nesting depth 2) with
   ExactlySnapshot / NoDuplicateSubscription / StackNested; EventPayload.tla table (660 rows).
2. S->C: -simulate behaviours of PubSub.tla replayed on the real EventProducer with scripted
   re-entrant listeners; every row of the payload table executed on Event / TimedEvent.
3. C->S: random re-entrant histories recorded and validated by TracePubSub.tla.
"""
from __future__ import annotations

from harness import tlc, traces
from harness.core import Ctx
from harness import drive_pubsub as dp

PID = "C08"


def _cfg(level, depth=2, fires=3, react=1, listeners=(1, 2, 3)):
    return f"""SPECIFICATION Spec
CONSTANTS
  Types = {{"T1", "T2"}}
  Listeners = {{{", ".join(map(str, listeners))}}}
  MaxDepth = {depth}
  MaxFires = {fires}
  MaxReact = {react}
  Stamps = {{7}}
  MaxLevel = {level}
CONSTRAINT LevelBound
INVARIANT NoDuplicateSubscription
INVARIANT ExactlySnapshot
INVARIANT StackNested
CHECK_DEADLOCK FALSE
"""


def model_checks(ctx: Ctx):
    r = tlc.run("MC_PubSub", "c08.cfg", extra_files={"c08.cfg": _cfg(ctx.pick(9, 11))}, workers=16,
                coverage=True, timeout=2400)
    ctx.add_tlc("PubSub", r)
    if not r.ok:
        raise tlc.MachineryError(f"PubSub.tla violates {r.violated}")
    for act in ("Add", "Remove", "RemoveAll", "HasListeners", "Fire", "Deliver", "Return", "EndFire"):
        if r.coverage.get(act, (0, 0))[0] == 0:
            raise tlc.MachineryError(f"vacuity: {act} never taken")


def script_of(beh):
    return [dict(st["op"]) for _, _, st in beh[1:]]


def s_to_c(ctx: Ctx):
    num = ctx.pick(1500, 15000)
    cfg = _cfg(60, depth=3, fires=8, react=2)
    behs, r = tlc.simulate("MC_PubSub", "c08s.cfg", num=num, depth=45, seed=ctx.seed + 8,
                           extra_files={"c08s.cfg": cfg}, timeout=1200)
    ctx.add_tlc("PubSub -simulate", r)
    if len(behs) < num // 2:
        raise tlc.MachineryError(f"only {len(behs)} behaviours")
    nested = 0
    for bi, beh in enumerate(behs):
        script = script_of(beh)
        final = beh[-1][2]
        rp = dp.Replayer(script, type_names=["T1", "T2"], listener_names=[1, 2, 3])
        ctx.traces += 1
        ctx.evaluations += 1
        ctx.distinct.add(tuple(tuple(sorted(o.items())) for o in script))
        if any(len(st["stack"]) >= 2 for _, _, st in beh):
            nested += 1
        if bi == 0:
            ctx.sample({"kind": "S->C script", "ops": script[:16]})
        try:
            rp.run()
        except dp.Mismatch as m:
            ctx.violation(m.key, f"behaviour {bi}: {m.detail}", {"script": script})
            continue
        except Exception as ex:
            ctx.violation(f"exception|{type(ex).__name__}", f"behaviour {bi}: {type(ex).__name__}: {ex}", {"script": script})
            continue
        if len(final["stack"]) == 0:
            want = {t: list(final["subs"][t]) for t in ("T1", "T2")}
            got = rp.probe()
            if got != want:
                ctx.violation("final_subscriptions", f"behaviour {bi}: probe fire reaches {got}, specification subscriptions {want}",
                              {"script": script})
    ctx.notes["behaviours_with_nested_fire"] = nested
    if nested == 0:
        raise tlc.MachineryError("vacuity: no behaviour with nested firing")


# ------------------------------------------------------------------ payload table

class _Sub(int):
    pass


def payload_rows(ctx: Ctx):
    from pydsol.core.pubsub import Event, TimedEvent, EventError
    nodes, edges, inits, r = tlc.dump_graph("EventPayload", "EventPayload.cfg")
    ctx.add_tlc("EventPayload table", r)
    types = dp.fresh_types(["PLAIN"])

    def VERIF_DECL():
        from pydsol.core.pubsub import EventType
        return EventType(f"DECL_{id(types)}", {"a": int, "b": str, "c": float})

    class _S(str):
        pass
    decl = VERIF_DECL()
    contents = {
        "nondict_int": 5, "nondict_none": None, "nondict_list": [1, "x", 2.5],
        "exact": {"a": 1, "b": "x", "c": 2.5}, "exact_subclass": {"a": True, "b": "x", "c": 2.5}, "str_subclass": {"a": 1, "b": _S("x"), "c": 2.5},
        "int_for_float": {"a": 1, "b": "x", "c": 2}, "bool_for_float": {"a": 1, "b": "x", "c": True}, "float_for_int": {"a": 1.0, "b": "x", "c": 2.5},
        "missing_key": {"a": 1, "c": 2.5}, "extra_key": {"a": 1, "b": "x", "c": 2.5, "d": 2},
        "renamed_key": {"a": 1, "d": "x", "c": 2.5}, "value_none": {"a": 1, "b": None, "c": 2.5},
        "wrong_type": {"a": "1", "b": "x", "c": 2.5}, "empty_dict": {},
    }
    from pydsol.core.units import Duration
    from pydsol.core.pubsub import EventProducer, EventListener
    stamps = {"int": 3, "float": 2.5, "str": "3", "none": None}
    alt_stamps = {"int": 2 ** 53 + 1, "float": Duration(2, "h")}     # the timestamp is carried as given (no normalisation)

    class Sink(EventListener):
        def __init__(self):
            self.got = []

        def notify(self, e):
            self.got.append(e)
    n = 0
    for nid, st in nodes.items():
        row = st["row"]
        et = {"eventtype": decl if row["m"] == "declared" else types["PLAIN"], "string": "PLAIN", "none": None}[row["et"]]
        content = contents[row["c"]]
        try:
            if row["st"] == "untimed":
                ev = Event(et, content, row["chk"])
            else:
                ev = TimedEvent(stamps[row["st"]], et, content, row["chk"])
                if ev.timestamp != stamps[row["st"]] or type(ev.timestamp) is not type(stamps[row["st"]]):
                    ctx.violation("timestamp", f"TimedEvent carries {ev.timestamp}, constructed with {stamps[row['st']]}", dict(row))
            res = "ok"
            if ev.content is not content or ev.event_type is not et:
                ctx.violation("payload_identity", f"event does not carry its content/type: {dict(row)}", dict(row))
        except EventError:
            res = "EventError"
        except Exception as ex:
            res = type(ex).__name__
        # the same row through the producer's convenience methods fire / fire_timed (check flag forwarded, event delivered as fired)
        if row["et"] == "eventtype":
            prod, sink = EventProducer(), Sink()
            prod.add_listener(et, sink)
            for variant in ([stamps[row["st"]]] + ([alt_stamps[row["st"]]] if row["st"] in alt_stamps else [])) if row["st"] != "untimed" else [None]:
                sink.got.clear()
                try:
                    if row["st"] == "untimed":
                        prod.fire(et, content, row["chk"])
                    else:
                        prod.fire_timed(variant, et, content, row["chk"])
                    pres = "ok"
                except EventError:
                    pres = "EventError"
                except Exception as ex:
                    pres = type(ex).__name__
                if pres != row["res"]:
                    ctx.violation(f"producer|{row['c']}|{row['m']}|{row['chk']}|{row['st']}", f"fire{'_timed' if row['st'] != 'untimed' else ''} row {dict(row)}: -> {pres}, specification {row['res']}", dict(row))
                elif pres == "ok":
                    if len(sink.got) != 1 or sink.got[0].content is not content:
                        ctx.violation("producer|delivery", f"fire row {dict(row)}: delivered {len(sink.got)} events", dict(row))
                    elif row["st"] != "untimed":
                        ts = sink.got[0].timestamp
                        if ts != variant or type(ts) is not type(variant):
                            ctx.violation("timestamp", f"event fired with timestamp {variant!r} ({type(variant).__name__}) carries {ts!r} ({type(ts).__name__})", dict(row))
        n += 1
        ctx.distinct.add(("row", tuple(sorted((k, str(v)) for k, v in row.items()))))
        if res != row["res"]:
            ctx.violation(f"payload|{row['c']}|{row['m']}|{row['chk']}|{row['st']}|{row['et']}",
                          f"constructor row {dict(row)}: code -> {res}, specification -> {row['res']}", dict(row))
    ctx.evaluations += n
    ctx.notes["payload_rows_executed"] = n
    ctx.sample({"kind": "payload row", "row": dict(next(iter(nodes.values()))["row"])})


def c_to_s(ctx: Ctx):
    n = ctx.pick(800, 8000)
    trs = []
    for i in range(n):
        rr = dp.RandomRunner(ctx.rng, ["T1", "T2", "T3"][: ctx.rng.choice([1, 2, 3])], [1, 2, 3, 4, 5][: ctx.rng.choice([2, 3, 5])],
                             max_depth=ctx.rng.choice([1, 2, 3]))
        try:
            trs.append(rr.run(ctx.rng.choice([15, 30, 60])))
        except Exception as ex:
            ctx.violation(f"exception|{type(ex).__name__}", f"random history {i}: {type(ex).__name__}: {ex}", {"trace": rr.tr})
    rej, st = traces.validate("TracePubSub", "TracePubSub.cfg", trs, timeout=2400, chunk=3000)
    ctx.states += st["distinct"]; ctx.transitions += st["generated"]
    ctx.tlc_runs.append({"model": "TracePubSub (batch)", **{k: (round(v, 2) if isinstance(v, float) else v) for k, v in st.items()}})
    ctx.traces += len(trs)
    ctx.evaluations += len(trs)
    ctx.sample({"kind": "C->S trace (prefix)", "events": trs[0][:14]})
    for r in rej:
        ev = r.event or {}
        ctx.violation(f"trace|{ev.get('a')}", f"recorded history {r.index}: events 1..{r.upto} are a behaviour of PubSub.tla, event {r.upto + 1} {ev} is not "
                      f"(invariant={getattr(r, 'invariant', None)})", {"trace": r.trace, "explained": r.upto})
    if ctx.violations:
        return
    # self-test: drop one Deliver / corrupt a listener
    bad = []
    rejected = {r.index for r in rej}
    for i, t in enumerate(trs[:200]):
        if i in rejected:
            continue
        for k, e in enumerate(t):
            if e["a"] == "Deliver":
                t2 = [dict(x) for x in t]
                if len(bad) % 2:
                    t2[k]["l"] = t2[k]["l"] % 5 + 1
                else:
                    del t2[k]
                bad.append(t2)
                break
        if len(bad) >= 20:
            break
    if not bad:
        raise tlc.MachineryError("self-test: no trace with a delivery")
    rj, _ = traces.validate("TracePubSub", "TracePubSub.cfg", bad, timeout=600)
    if len(rj) != len(bad):
        raise tlc.MachineryError(f"binding self-test failed: {len(bad) - len(rj)} corrupted traces accepted")
    ctx.binding["selftest_corrupted_rejected"] = len(bad)


def run_replay(ctx: Ctx):
    import json
    case = json.load(open(ctx.replay))["case"]
    if "script" in case:
        rp = dp.Replayer(case["script"], type_names=["T1", "T2"], listener_names=[1, 2, 3])
        try:
            rp.run()
        except dp.Mismatch as m:
            ctx.violation(m.key, m.detail, case)
    elif "trace" in case:
        rej, _ = traces.validate("TracePubSub", "TracePubSub.cfg", [case["trace"]])
        for r in rej:
            ctx.violation("trace|replay", repr(r), case)


def run(ctx: Ctx):
    ctx.assumptions += [
        "event content tags (event ids) and scaled timestamps (4*t) identify events in logs",
        "listeners are EventListener instances that only call the producer's public methods",
    ]
    if ctx.replay:
        return run_replay(ctx)
    model_checks(ctx)
    payload_rows(ctx)
    s_to_c(ctx)
    c_to_s(ctx)
