"""C09 / C10 shared: Stats.tla model checks, full-graph edge cover replayed on the real classes."""
from __future__ import annotations

from fractions import Fraction

from harness import tlc, graphs
from harness.core import Ctx
from harness.tlc import tla_set as S
from harness import drive_stats as dst


def model(kind, maxlen, vals=(0, 1, 3), weights=(0, 1, 2), times=(0, 1, 2, 4)):
    return tlc.mc_files("MC_Stats", "Stats", {"Kind": '"%s"' % kind, "Vals": S(list(vals)), "Weights": S(list(weights)),
                                               "Times": S(list(times)), "MaxLen": str(maxlen)},
                        invariants=["NonNegVariance", "TotalWeightIsSpan", "MeanWithinExtremes"], properties=["RejectedChangesNothing"])


def check_kind(ctx: Ctx, kind, maxlen, variants=("plain", "event", "listened"), vals=(0, 1, 3), label=None, max_paths=None,
               affine=dst.AFFINE, repeat=(1, 200), all_paths=False):
    files, mod, cfg = model(kind, maxlen, vals=vals)
    nodes, edges, inits, r = tlc.dump_graph(mod, cfg, extra_files=files, workers=8, timeout=3600)
    ctx.add_tlc(label or f"Stats[{kind}] histories <= {maxlen}", r)
    if not r.ok:
        raise tlc.MachineryError(f"Stats.tla[{kind}] violates {r.violated}")
    if all_paths:
        out = {}
        for k, (u, lab, v) in enumerate(edges):
            out.setdefault(u, []).append(k)
        paths = []
        stack = [(inits[0], [])]
        while stack:
            u, p = stack.pop()
            if u not in out:
                paths.append(p)
                continue
            for k in out[u]:
                stack.append((edges[k][2], p + [k]))
    else:
        paths, ncov = graphs.edge_cover(nodes, edges, inits)
    paths.sort(key=lambda p: [edges[k][1] for k in p])      # deterministic whatever the order of the dump
    if max_paths and len(paths) > max_paths:
        step = len(paths) / max_paths
        paths = [paths[int(i * step)] for i in range(max_paths)]
    ctx.notes.setdefault("edge_cover", {})[f"{kind}/{maxlen}/{vals}"] = {"nodes": len(nodes), "edges": len(edges), "paths": len(paths)}
    n = 0
    for pi, p in enumerate(paths):
        variant = variants[pi % len(variants)]
        aff = affine[pi % len(affine)] if kind != "counter" else (Fraction(1 + pi % 3), Fraction(pi % 2))
        tscale = [1.0, 0.25, 1024.0][pi % 3]
        rp = dst.StatReplay(kind, variant, aff, tscale)
        states = [nodes[inits[0]]] + [nodes[edges[k][2]] for k in p]
        failed = False
        for si, st in enumerate(states[1:], 1):
            op = dict(st["op"])
            v = rp.apply(op)
            probs = [v] if v else []
            nxt = states[si + 1]["op"]["a"] if si + 1 < len(states) else "end"
            if kind == "tally" and pi % 3 == 2:
                # sparse querying: one confidence interval per epoch (just before an initialise / at the end)
                probs += rp.compare(st["g"], alphas=(0.05,) if nxt in ("Initialize", "end") else ())
            elif kind != "tally" and pi % 3 == 2:
                # sparse querying of every getter: once per epoch (a cache that survives initialize() is refreshed by queries in between)
                if nxt in ("Initialize", "end"):
                    probs += rp.compare(st["g"])
            else:
                probs += rp.compare(st["g"])
            if op["a"].startswith("Register") and op.get("res") == "ok":
                probs += rp.published()
            for key, detail in probs:
                ctx.violation(f"{kind}|{key}", f"{kind} ({variant}, first image {aff[0]}*x+{aff[1]}, current image {rp.a}*x+{rp.b}) after {[dict(s['op']) for s in states[1:si + 1]][-6:]}: {detail}",
                              {"kind": kind, "variant": variant, "ops": [dict(s["op"]) for s in states[1:si + 1]]})
                failed = True
            if failed:
                break
        n += 1
        ctx.distinct.add((kind, tuple(p)))
        # repetition: feed the pattern since the last initialise again; population getters and extremes are unchanged
        if not failed and kind == "tally" and repeat[1] > 1 and pi % 5 == 0:
            last = states[-1]
            pattern = [x for x in last["obs"]]
            if len(pattern) >= 4:
                err = None
                for _ in range(repeat[1] - 1):
                    for x in pattern:
                        r_ = dst.call(rp.obj.register, rp.x(x))
                        if isinstance(r_, Exception):
                            err = r_
                            break
                    if err:
                        break
                if err:
                    ctx.violation(f"{kind}|raise|Register|{type(err).__name__}", f"register raised {type(err).__name__}: {err} while repeating pattern {pattern} ({variant})",
                                  {"pattern": pattern})
                    continue
                g = dict(last["g"])
                k = repeat[1]
                for name in ("min", "max", "mean", "variance", "stdev", "skewness", "kurtosis", "excess_kurtosis"):
                    meth = name
                    got = dst.call(getattr(rp.obj, meth))
                    want = dst.transform(name, dst.val(g[name]), rp.a, rp.b, g)       # (the image of the current epoch)
                    if isinstance(got, Exception) or not dst.close(got, want, 1.0, rp.kappa(g)):
                        ctx.violation(f"{kind}|repeat|{name}", f"tally of pattern {pattern} repeated {k} times (image {rp.a}*x+{rp.b}): {meth}() = {got!r}, "
                                      f"specification {dst.describe(want)}", {"pattern": pattern, "k": k})
                if rp.obj.n() != k * len(pattern):
                    ctx.violation(f"{kind}|repeat|n", f"n() = {rp.obj.n()} after {k} x {len(pattern)} observations", {"pattern": pattern})
        if len(ctx.violations) > 40:
            break
    ctx.evaluations += n
    ctx.traces += n
    if paths:
        ctx.sample({"kind": f"{kind} path", "ops": [dict(nodes[edges[k][2]]["op"]) for k in paths[len(paths) // 2]]})
