"""C09 / C10 shared: Stats.tla model checks, full-graph edge cover replayed on the real classes."""
from __future__ import annotations

from fractions import Fraction

from harness import tlc, graphs
from harness.core import Ctx
from harness.tlc import tla_set as S
from harness import drive_stats as dst


def model(kind, maxlen, vals=(0, 1, 3), weights=(0, 1, 2), times=(0, 1, 2, 4)):
    return tlc.mc_files("MC_Stats", "Stats", {"Kind": '"%s"' % kind, "Vals": S(list(vals)), "Weights": S(list(weights)),
                                               "Times": S(list(times)), "MaxLen": str(maxlen)},
                        invariants=["NonNegVariance", "TotalWeightIsSpan", "MeanWithinExtremes"], properties=["RejectedChangesNothing"])


def check_kind(ctx: Ctx, kind, maxlen, variants=("plain", "event", "listened"), vals=(0, 1, 3), label=None, max_paths=None,
               affine=dst.AFFINE, repeat=(1, 200), all_paths=False):
    files, mod, cfg = model(kind, maxlen, vals=vals)
    nodes, edges, inits, r = tlc.dump_graph(mod, cfg, extra_files=files, workers=8, timeout=3600)
    ctx.add_tlc(label or f"Stats[{kind}] histories <= {maxlen}", r)
    if not r.ok:
        raise tlc.MachineryError(f"Stats.tla[{kind}] violates {r.violated}")
    if all_paths:
        out = {}
        for k, (u, lab, v) in enumerate(edges):
            out.setdefault(u, []).append(k)
        paths = []
        stack = [(inits[0], [])]
        while stack:
            u, p = stack.pop()
            if u not in out:
                paths.append(p)
                continue
            for k in out[u]:
                stack.append((edges[k][2], p + [k]))
    else:
        paths, ncov = graphs.edge_cover(nodes, edges, inits)
    paths.sort(key=lambda p: [edges[k][1] for k in p])      # deterministic whatever the order of the dump
    # plus, always (whatever the sample): histories with two epochs of EQUAL length (k observations, initialize, k observations);
    # they are queried sparsely (index = 2 mod 3), which is what a cache that survives initialize() needs in order to show
    succ = {}
    for k_, (u, lab, v) in enumerate(edges):
        succ.setdefault(u, []).append(k_)

    def reg_paths(u, klen):
        """paths of klen accepted observation edges from u (first two alternatives per node, deterministic order)"""
        if klen == 0:
            return [[]]
        res = []
        cands = [e for e in sorted(succ.get(u, []), key=lambda e: edges[e][1]) if nodes[edges[e][2]]["op"]["a"].startswith("Register") and nodes[edges[e][2]]["op"].get("res") == "ok"]
        for e in cands[:2] + cands[-1:]:
            for rest in reg_paths(edges[e][2], klen - 1):
                res.append([e] + rest)
        return res
    extra = []
    for klen in (2, 3):
        for p1 in reg_paths(inits[0], klen)[:4]:
            u = edges[p1[-1]][2] if p1 else inits[0]
            ini = [e for e in succ.get(u, []) if nodes[edges[e][2]]["op"]["a"] == "Initialize"]
            if not ini:
                continue
            for p2 in reg_paths(edges[ini[0]][2], klen)[-3:]:
                extra.append(p1 + [ini[0]] + p2)
    equal_epoch = []
    for p in extra:
        while len(paths) % 3 != 2:
            paths.append(paths[len(paths) % max(1, len(paths))] if paths else p)      # (padding so that the next index is sparse)
        equal_epoch.append(len(paths))
        paths.append(p)
    ctx.notes.setdefault("equal_epoch_paths", {})[f"{kind}/{maxlen}"] = len(extra)
    if max_paths and len(paths) > max_paths:
        keep = set(equal_epoch)
        step = len(paths) / max_paths
        chosen = sorted(set(int(i * step) for i in range(max_paths)) | keep)
        # indices decide the variant / sparseness of a path: keep them stable by replacing dropped paths with None
        paths = [paths[i] if i in chosen else None for i in range(len(paths))]
    ctx.notes.setdefault("edge_cover", {})[f"{kind}/{maxlen}/{vals}"] = {"nodes": len(nodes), "edges": len(edges), "paths": len(paths)}
    n = 0
    sparse_n = {}
    for pi, p in enumerate(paths):
        if p is None:
            continue
        variant = variants[pi % len(variants)]
        aff = affine[pi % len(affine)] if kind != "counter" else (Fraction(1 + pi % 3), Fraction(pi % 2))
        tscale = [1.0, 0.25, 1024.0][pi % 3]
        rp = dst.StatReplay(kind, variant, aff, tscale)
        states = [nodes[inits[0]]] + [nodes[edges[k][2]] for k in p]
        failed = False
        for si, st in enumerate(states[1:], 1):
            op = dict(st["op"])
            v = rp.apply(op)
            probs = [v] if v else []
            nxt = states[si + 1]["op"]["a"] if si + 1 < len(states) else "end"
            if kind == "tally" and pi % 3 == 2:
                # sparse querying: one confidence interval per epoch (just before an initialise / at the end)
                probs += rp.compare(st["g"], alphas=(0.05,) if nxt in ("Initialize", "end") else ())
            elif kind != "tally" and pi % 3 == 2:
                # sparse querying of every getter: at the end of an epoch, and in later epochs exactly when the count equals the count
                # of the previous query (a cache keyed by the count that survives initialize() is refreshed by any query in between)
                try:
                    n_now = int(dst.val(st["g"]["n"]))
                except Exception:
                    n_now = None
                if nxt in ("Initialize", "end") or (n_now is not None and n_now == sparse_n.get(pi) and n_now > 0):
                    probs += rp.compare(st["g"])
                    sparse_n[pi] = n_now
            else:
                probs += rp.compare(st["g"])
            if op["a"].startswith("Register") and op.get("res") == "ok":
                probs += rp.published()
            for key, detail in probs:
                ctx.violation(f"{kind}|{key}", f"{kind} ({variant}, first image {aff[0]}*x+{aff[1]}, current image {rp.a}*x+{rp.b}) after {[dict(s['op']) for s in states[1:si + 1]][-6:]}: {detail}",
                              {"kind": kind, "variant": variant, "ops": [dict(s["op"]) for s in states[1:si + 1]]})
                failed = True
            if failed:
                break
        n += 1
        ctx.distinct.add((kind, tuple(p)))
        # repetition: feed the pattern since the last initialise again; population getters and extremes are unchanged
        if not failed and kind == "tally" and repeat[1] > 1 and pi % 5 == 0:
            last = states[-1]
            pattern = [x for x in last["obs"]]
            if len(pattern) >= 4:
                err = None
                for _ in range(repeat[1] - 1):
                    for x in pattern:
                        r_ = dst.call(rp.obj.register, rp.x(x))
                        if isinstance(r_, Exception):
                            err = r_
                            break
                    if err:
                        break
                if err:
                    ctx.violation(f"{kind}|raise|Register|{type(err).__name__}", f"register raised {type(err).__name__}: {err} while repeating pattern {pattern} ({variant})",
                                  {"pattern": pattern})
                    continue
                g = dict(last["g"])
                k = repeat[1]
                for name in ("min", "max", "mean", "variance", "stdev", "skewness", "kurtosis", "excess_kurtosis"):
                    meth = name
                    got = dst.call(getattr(rp.obj, meth))
                    want = dst.transform(name, dst.val(g[name]), rp.a, rp.b, g)       # (the image of the current epoch)
                    if isinstance(got, Exception) or not dst.close(got, want, 1.0, rp.kappa(g)):
                        ctx.violation(f"{kind}|repeat|{name}", f"tally of pattern {pattern} repeated {k} times (image {rp.a}*x+{rp.b}): {meth}() = {got!r}, "
                                      f"specification {dst.describe(want)}", {"pattern": pattern, "k": k})
                if rp.obj.n() != k * len(pattern):
                    ctx.violation(f"{kind}|repeat|n", f"n() = {rp.obj.n()} after {k} x {len(pattern)} observations", {"pattern": pattern})
        if len(ctx.violations) > 40:
            break
    ctx.evaluations += n
    ctx.traces += n
    if paths:
        some = next(p for p in paths[len(paths) // 2:] + paths if p is not None)
        ctx.sample({"kind": f"{kind} path", "ops": [dict(nodes[edges[k][2]]["op"]) for k in some]})
