"""C18 — input parameters always hold a valid value, addressable by their dotted key.

TLC: Params.tla: all sequences of construct / set_value / model set / get / remove on small trees with
ValueValid, DefaultNeverChanges, ReadOnlyNeverChanges, RejectedLeavesUnchanged, UniqueKeys,
EveryNodeReachable, ModelSetGetRoundTrip.  S->C: edge cover of the small graph + simulated behaviours over
all eight parameter kinds replayed on real InputParameter* objects and a DSOLModel.
"""
from __future__ import annotations

from harness import tlc, graphs
from harness.core import Ctx
from harness.tlc import tla_set as S
from harness.tlaval import fn_to_seq

PID = "C18"
ALLK = ["map", "int", "float", "str", "bool", "quantity", "list", "unit"]
BOUNDED = ["int", "float", "quantity", "list", "unit"]
INVS = ["ValueValid", "UniqueKeys", "EveryNodeReachable"]
PROPS = ["DefaultNeverChanges", "ReadOnlyNeverChanges", "RejectedLeavesUnchanged", "ModelSetGetRoundTrip"]


def files_for(kinds, maxnodes, steps, keys=("a", "b"), prios=(1, 2), level=None, maxpath=2):
    return tlc.mc_files("MC_Params", "Params", {"MaxNodes": str(maxnodes), "Keys": S(list(keys)), "Kinds": S(kinds), "Prios": S(list(prios)),
                                                 "MaxSteps": str(steps), "Bounded": S(BOUNDED), "MaxPath": str(maxpath)}, invariants=INVS, properties=PROPS, level=level)


FALSY = False      # per replay: the valid representatives are truthy (1, 1.5, "a", ...) or FALSY (0, 0.0, "", Length(0)): a value is a value


def concrete(kind, vclass):
    from pydsol.core.units import Length, Duration
    if FALSY and vclass == "v1" and kind in ("int", "float", "str", "quantity"):
        return {"int": 0, "float": 0.0, "str": "", "quantity": Length(0, "m")}[kind]
    table = {
        "int": {"v1": 1, "v2": 2, "oob": 4, "wrongtype": "x"},
        "float": {"v1": 1.5, "v2": 2.0, "oob": 3.5, "wrongtype": "x"},
        "str": {"v1": "a", "v2": "b", "wrongtype": 5},
        "bool": {"v1": True, "v2": False, "wrongtype": 1},
        "quantity": {"v1": Length(1, "m"), "v2": Length(200, "cm"), "oob": Length(11, "m"), "wrongtype": Duration(1, "s")},
        "list": {"v1": "a", "v2": "b", "oob": "z", "wrongtype": 5},
        "unit": {"v1": "m", "v2": "km", "oob": "s", "wrongtype": 5},
    }
    return table[kind][vclass]


def oob_variants(kind):
    import math
    from pydsol.core.units import Length
    return {"int": [4, -1], "float": [3.5, -0.5, math.nan, math.inf], "quantity": [Length(11, "m"), Length(-1, "m"), Length(math.nan, "m")],
            "list": ["z", "", "a ", " b", "A", "a\n"], "unit": ["s", "", "m ", " km", "M", "km\n"]}.get(kind, [])     # (padded / re-cased options are not options)


def classify(kind, value):
    for vc in ("v1", "v2", "oob", "wrongtype"):
        try:
            c = concrete(kind, vc)
        except KeyError:
            continue
        if type(c) is type(value) and c == value:
            return vc
    return f"?{value!r}"


def construct(kind, key, parent, dclass, ro, prio):
    from pydsol.core import parameters as P
    from pydsol.core.units import Length
    if kind == "map":
        return P.InputParameterMap(key, "n", prio, parent=parent)
    d = concrete(kind, dclass)
    if kind == "quantity" and dclass == "wrongtype":
        d = 5          # any Quantity is an admissible default (it fixes the parameter's type): use a non-quantity
    if kind == "int":
        return P.InputParameterInt(key, "n", d, prio, parent=parent, read_only=ro, min_value=0, max_value=3)
    if kind == "float":
        return P.InputParameterFloat(key, "n", d, prio, parent=parent, read_only=ro, min_value=0.0, max_value=3.0)
    if kind == "str":
        return P.InputParameterStr(key, "n", d, prio, parent=parent, read_only=ro)
    if kind == "bool":
        return P.InputParameterBool(key, "n", d, prio, parent=parent, read_only=ro)
    if kind == "quantity":
        return P.InputParameterQuantity(key, "n", d, prio, parent=parent, read_only=ro, min_si=0.0, max_si=10.0)
    if kind == "list":
        return P.InputParameterSelectionList(key, "n", ["a", "b", "c"], d, prio, parent=parent, read_only=ro)
    if kind == "unit":
        return P.InputParameterUnit(key, "n", Length, d, prio, parent=parent, read_only=ro)
    raise ValueError(kind)


def replay(ctx: Ctx, states, origin):
    global FALSY
    import zlib
    FALSY = zlib.crc32(origin.encode()) % 2 == 1
    try:
        return _replay(ctx, states, origin)
    finally:
        FALSY = False


def _replay(ctx: Ctx, states, origin):
    from pydsol.core.model import DSOLModel
    from pydsol.core.simulator import DEVSSimulatorFloat

    class M(DSOLModel):
        def construct_model(self):
            pass
    model = M(DEVSSimulatorFloat("p"))
    root = model.input_parameters
    objs = {1: root}
    ops = [dict(s["op"]) for s in states[1:]]

    def bad(key, detail, k):
        ctx.violation(key, f"{origin}: after {ops[max(0, k - 4):k + 1]}: {detail}", {"ops": ops[:k + 1]})
        return False

    for k, st in enumerate(states[1:]):
        op = st["op"]
        a = op["a"]
        nodes = fn_to_seq(st["nodes"])
        try:
            if a == "New":
                try:
                    o = construct(op["kind"], op["key"], objs[op["par"]], op["dclass"], bool(op["ro"]), op["prio"])
                    res = "ok"
                except (TypeError, ValueError) as ex:
                    res = "error"
                if res != op["res"]:
                    return bad(f"new|{op['kind']}|{op['dclass']}", f"constructing {op['kind']} '{op['key']}' (default {op['dclass']}) -> {res}, specification {op['res']}", k)
                if res == "ok":
                    objs[op["id"]] = o
                    if op["kind"] in BOUNDED and not op["ro"]:
                        # probe: every out-of-domain value must be refused and leave the value unchanged
                        before = o.value
                        for v in oob_variants(op["kind"]):
                            try:
                                o.set_value(v)
                                return bad(f"set_value|{op['kind']}|oob", f"set_value({v!r}) on a fresh {op['kind']} parameter was accepted (value now {o.value!r})", k)
                            except (TypeError, ValueError):
                                pass
                        if o.value is not before and o.value != before:
                            return bad(f"set_value|{op['kind']}|oob", f"a refused set_value changed the value to {o.value!r}", k)
                        # ... and every value inside the domain is accepted (then put back)
                        for vc in ("v2", "v1"):
                            try:
                                o.set_value(concrete(op["kind"], vc))
                            except (TypeError, ValueError) as ex:
                                return bad(f"set_value|{op['kind']}|valid_refused", f"set_value({concrete(op['kind'], vc)!r}) inside the declared domain was refused: {ex}", k)
            elif a == "SetValue":
                o = objs[op["id"]]
                kind = nodes[op["id"] - 1]["kind"]
                try:
                    if op["vclass"] == "oob":
                        res = "error"
                        for v in oob_variants(kind):     # every out-of-domain value must be refused
                            try:
                                o.set_value(v)
                                res = f"ok (accepted {v!r})"
                                break
                            except (TypeError, ValueError):
                                pass
                    else:
                        o.set_value(concrete(kind, op["vclass"]) if kind != "map" else {})
                        res = "ok"
                except (TypeError, ValueError, NotImplementedError):
                    res = "error"
                if res != op["res"]:
                    return bad(f"set_value|{kind}|{op['vclass']}|ro={nodes[op['id'] - 1]['ro']}", f"set_value({op['vclass']}) on {kind} (read_only={nodes[op['id'] - 1]['ro']}) -> {res}, specification {op['res']}", k)
            elif a == "ModelSet":
                path = ".".join(op["path"])
                tgt = None
                for i, nd in enumerate(nodes):      # kind of the target according to the specification (pre-state is the same tree)
                    pass
                try:
                    cur = root.get(path)
                    kind = kind_of(cur)
                    val = concrete(kind, op["vclass"]) if kind != "map" else {}
                except KeyError:
                    kind, val = None, 1
                except Exception as ex:
                    return bad(f"get|{type(ex).__name__}", f"get('{path}') raised {type(ex).__name__}: {ex}", k)
                try:
                    model.set_parameter(path, val)
                    res = "ok"
                except KeyError:
                    res = "KeyError"
                except (TypeError, ValueError, NotImplementedError):
                    res = "error"
                if res != op["res"]:
                    return bad(f"model_set|{res}", f"model.set_parameter('{path}', {op['vclass']}) -> {res}, specification {op['res']}", k)
                if res == "ok":
                    got = model.get_parameter(path)
                    if classify(kind, got) != op["vclass"]:
                        return bad("model_roundtrip", f"model.get_parameter('{path}') = {got!r} after setting {op['vclass']}", k)
            elif a == "Move":
                o = objs[op["id"]]
                try:
                    objs[op["par"]].add(o)
                    res = "ok"
                except (ValueError, TypeError):
                    res = "error"
                if res != op["res"]:
                    return bad("move", f"adding the removed parameter {op['id']} to map {op['par']} -> {res}, specification {op['res']}", k)
            elif a == "ModelGet":
                path = ".".join(op["path"])
                try:
                    v = model.get_parameter(path)
                    res = "ok"
                except KeyError:
                    res, v = "KeyError", None
                if res != op["res"]:
                    return bad("model_get", f"model.get_parameter('{path}') -> {res}, specification {op['res']}", k)
                if res == "ok" and nodes[op["id"] - 1]["kind"] != "map" and classify(nodes[op["id"] - 1]["kind"], v) != op["val"]:
                    return bad("model_get", f"model.get_parameter('{path}') = {v!r}, specification class {op['val']}", k)
            elif a == "Get":
                path = ".".join(op["path"])
                try:
                    o = root.get(path)
                    res = "ok"
                except KeyError:
                    res, o = "KeyError", None
                if res != op["res"] or (res == "ok" and o is not objs[op["id"]]):
                    return bad("get", f"get('{path}') -> {res} {o}, specification {op['res']} node {op['id']}", k)
            elif a == "Remove":
                path = ".".join(op["path"])
                try:
                    o = root.remove(path)
                    res = "ok"
                except KeyError:
                    res, o = "KeyError", None
                if res != op["res"] or (res == "ok" and o is not objs[op["id"]]):
                    return bad("remove", f"remove('{path}') -> {res}, specification {op['res']}", k)
        except Exception as ex:
            return bad(f"exception|{a}|{type(ex).__name__}", f"{a} raised {type(ex).__name__}: {ex}", k)
        # full projection after every action
        for i, nd in enumerate(nodes, 1):
            if i == 1 or nd["kind"] == "none" or i not in objs:
                continue
            o = objs[i]
            if nd["kind"] != "map":
                vc, dc = classify(nd["kind"], o.value), classify(nd["kind"], o.default_value)
                if vc != nd["val"]:
                    return bad(f"value|{nd['kind']}", f"node {i} ({nd['kind']} '{nd['key']}', read_only={nd['ro']}) holds {o.value!r} = class {vc}, specification {nd['val']}", k)
                if dc != nd["def"]:
                    return bad("default", f"node {i} default is {o.default_value!r}, specification {nd['def']}", k)
        alive = {i for i, nd in enumerate(nodes, 1) if nd["alive"]}

        def under_alive(i):
            while i != 1:
                if i not in alive:
                    return False
                i = nodes[i - 1]["parent"]
            return True
        for i in sorted(alive):
            nd = nodes[i - 1]
            if nd["kind"] == "map" and under_alive(i):
                kids = [j for j in alive if nodes[j - 1]["parent"] == i]
                want = [nodes[j - 1]["key"] for j in sorted(kids, key=lambda j: (nodes[j - 1]["prio"], nodes[j - 1]["seq"]))]
                got = list(objs[i].value.keys())
                if got != want:
                    return bad("listing", f"children of map {i} listed as {got}, specification (priority, then insertion) {want}", k)
            if i != 1 and under_alive(i):
                pth = []
                j = i
                while j != 1:
                    pth.append(nodes[j - 1]["key"])
                    j = nodes[j - 1]["parent"]
                pth.reverse()
                try:
                    if nd["kind"] != "map":
                        mv = model.get_parameter(".".join(pth))
                        if classify(nd["kind"], mv) != nd["val"]:
                            return bad("model_get", f"model.get_parameter('{'.'.join(pth)}') = {mv!r}, the parameter at that key holds class {nd['val']}", k)
                    if root.get(".".join(pth)) is not objs[i]:
                        return bad("reach", f"get('{'.'.join(pth)}') is not node {i}", k)
                    if objs[i].extended_key() != "root." + ".".join(pth):
                        return bad("extended_key", f"extended_key() = {objs[i].extended_key()!r}, expected 'root.{'.'.join(pth)}'", k)
                except KeyError:
                    return bad("reach", f"node {i} not retrievable by '{'.'.join(pth)}'", k)
    return True


def model_value_probes(ctx: Ctx):
    """every valid value set through the model is reported back by the model, as the value it is: in particular the FALSY
    ones (0, 0.0, "", False, a zero quantity), at the top level and inside a nested map, whatever the default is"""
    from pydsol.core.model import DSOLModel
    from pydsol.core.simulator import DEVSSimulatorFloat
    from pydsol.core import parameters as P
    from pydsol.core.units import Length

    class M(DSOLModel):
        def construct_model(self):
            pass
    n = 0
    for nested in (False, True):
        model = M(DEVSSimulatorFloat("p"))
        parent = model.input_parameters
        prefix = ""
        if nested:
            parent = P.InputParameterMap("sub", "n", 1, parent=model.input_parameters)
            prefix = "sub."
        P.InputParameterInt("i", "n", 2, 1, parent=parent, min_value=0, max_value=3)
        P.InputParameterFloat("f", "n", 1.5, 2, parent=parent, min_value=0.0, max_value=3.0)
        P.InputParameterStr("s", "n", "a", 3, parent=parent)
        P.InputParameterBool("b", "n", True, 4, parent=parent)
        P.InputParameterQuantity("q", "n", Length(1, "m"), 5, parent=parent, min_si=0.0, max_si=10.0)
        for key, values in (("i", [0, 3, 1]), ("f", [0.0, 3.0, -0.0]), ("s", ["", "b", " "]), ("b", [False, True]), ("q", [Length(0, "m"), Length(10, "m")])):
            for v in values:
                n += 1
                try:
                    model.set_parameter(prefix + key, v)
                    got = model.get_parameter(prefix + key)
                except Exception as ex:
                    ctx.violation(f"model_value|{key}|{type(ex).__name__}", f"model.set_parameter / get_parameter('{prefix + key}', {v!r}) raised {type(ex).__name__}: {ex}", {"key": prefix + key, "value": repr(v)})
                    continue
                if type(got) is not type(v) or got != v or (isinstance(v, float) and repr(got) != repr(v)):
                    ctx.violation(f"model_value|{key}", f"model.get_parameter('{prefix + key}') = {got!r} after model.set_parameter(..., {v!r}) (a valid value)", {"key": prefix + key, "value": repr(v)})
    ctx.evaluations += n
    ctx.notes["model_value_probes"] = n


def kind_of(o):
    from pydsol.core import parameters as P
    for cls, k in ((P.InputParameterMap, "map"), (P.InputParameterUnit, "unit"), (P.InputParameterSelectionList, "list"), (P.InputParameterInt, "int"),
                   (P.InputParameterFloat, "float"), (P.InputParameterStr, "str"), (P.InputParameterBool, "bool"), (P.InputParameterQuantity, "quantity")):
        if isinstance(o, cls):
            return k
    return "?"


def run(ctx: Ctx):
    ctx.assumptions += ["value classes are concretised per kind (e.g. int bounds 0..3 with 4 / 'x' invalid); floats 2.0 vs int 2 distinguished by type",
                        "paths are relative to the model's root map; extended_key() additionally carries the root's own key"]
    q = ctx.quick
    files, mod, cfg = files_for(["map", "int", "str"], 4, 4)
    r = tlc.run(mod, cfg, extra_files=files, workers=16, timeout=1800, coverage=True)
    ctx.add_tlc("Params (map,int,str; 4 nodes, 4 steps)", r)
    if not r.ok:
        raise tlc.MachineryError(f"Params.tla violates {r.violated}")
    for a in ("NewAny", "SetAny", "ModelSet", "Get", "Remove", "MoveAny", "ModelGet"):
        if r.coverage.get(a, (0, 0))[0] == 0:
            raise tlc.MachineryError(f"vacuity: {a}")
    if not q:
        files, mod, cfg = files_for(["map", "list", "bool"], 4, 5, prios=(1,))
        r = tlc.run(mod, cfg, extra_files=files, workers=16, timeout=3000)
        ctx.add_tlc("Params (map,list,bool; 4 nodes, 5 steps)", r)
    model_value_probes(ctx)
    # edge cover of a small complete graph
    files, mod, cfg = files_for(["map", "int", "str"], 3, 3)
    nodes, edges, inits, r = tlc.dump_graph(mod, cfg, extra_files=files, workers=8, timeout=900)
    ctx.add_tlc("Params graph for edge cover", r)
    paths, ncov = graphs.edge_cover(nodes, edges, inits)
    ctx.notes["edge_cover"] = {"nodes": len(nodes), "edges": len(edges), "paths": len(paths)}
    for pi, p in enumerate(paths):
        states = [nodes[inits[0]]] + [nodes[edges[k][2]] for k in p]
        replay(ctx, states, f"edge-cover path {pi}")
        ctx.evaluations += 1
        ctx.distinct.add(("p", pi))
        if len(ctx.violations) > 30:
            break
    ctx.traces += len(paths)
    # deep trees: one key, maps nested three levels, paths with three parts
    files, mod, cfg = files_for(["map", "int"], 4, 4, keys=("a",), prios=(1,), maxpath=3)
    nodes, edges, inits, r = tlc.dump_graph(mod, cfg, extra_files=files, workers=8, timeout=900)
    ctx.add_tlc("Params deep-tree graph (paths of 3 keys)", r)
    paths, ncov = graphs.edge_cover(nodes, edges, inits)
    for pi, p in enumerate(paths):
        states = [nodes[inits[0]]] + [nodes[edges[k][2]] for k in p]
        replay(ctx, states, f"deep-tree path {pi}")
        ctx.evaluations += 1
        if len(ctx.violations) > 30:
            break
    ctx.traces += len(paths)
    # re-attachment: structural operations only (construct, remove, add elsewhere), so that five steps reach "a map with a child is
    # removed and added under another map": every node of the moved sub-tree must answer with (and to) its NEW dotted key
    files, mod, cfg = tlc.mc_files("MC_Params", "Params", {"MaxNodes": "4", "Keys": S(["a", "b"]), "Kinds": S(["map", "int"]), "Prios": S([1]),
                                                          "MaxSteps": "5" if q else "6", "Bounded": S(BOUNDED), "MaxPath": "2"}, invariants=INVS, properties=PROPS,
                                   extra_defs='Structural == op.a \\in {"Init", "New", "Remove", "Move"} /\\ (op.a # "Init" => op.res = "ok")', constraints=["Structural"])
    nodes, edges, inits, r = tlc.dump_graph(mod, cfg, extra_files=files, workers=8, timeout=900)
    ctx.add_tlc("Params re-attachment graph (structural operations, sub-trees moved)", r)
    paths, ncov = graphs.edge_cover(nodes, edges, inits)
    deep_moves = 0
    for pi, p in enumerate(paths):
        states = [nodes[inits[0]]] + [nodes[edges[k][2]] for k in p]
        deep_moves += sum(1 for st in states if st["op"]["a"] == "Move" and any(nd["parent"] == st["op"]["id"] and nd["alive"] for nd in st["nodes"]))
        replay(ctx, states, f"re-attachment path {pi}")
        ctx.evaluations += 1
        if len(ctx.violations) > 30:
            break
    ctx.traces += len(paths)
    ctx.notes["re_attachment"] = {"paths": len(paths), "moves_of_non_empty_maps": deep_moves}
    if deep_moves == 0:
        raise tlc.MachineryError("vacuity: no non-empty map was moved in the re-attachment graph")
    # simulation over all kinds
    files, mod, cfg = files_for(ALLK, 7, 14, keys=("a", "b"), prios=(1, 2, 3), level=20, maxpath=3)
    behs, r = tlc.simulate(mod, cfg, num=ctx.pick(600, 6000), depth=15, seed=ctx.seed + 18, extra_files=files, timeout=1800)
    ctx.add_tlc("Params -simulate (all kinds)", r)
    for bi, beh in enumerate(behs):
        replay(ctx, [s for _, _, s in beh], f"behaviour {bi}")
        ctx.evaluations += 1
        ctx.distinct.add(repr([dict(s["op"]) for _, _, s in beh]))
        if bi == 0:
            ctx.sample({"kind": "S->C behaviour", "ops": [dict(s["op"]) for _, _, s in beh[1:8]]})
        if len(ctx.violations) > 30:
            break
    ctx.traces += len(behs)
