"""C04 — simulator lifecycle: commands, states and notifications follow the protocol.

(a) Quiescent layer (this file, part 1): DEVS.tla with the full command alphabet (initialize, start, step,
    stop, run_up_to, run_up_to_including, end_replication, cleanup, pause = stop during a handler): every
    command either takes effect or is refused with DSOLError and then changes nothing (Refuse is UNCHANGED on
    everything); notification-stream invariants (replication start once and first, start/stop alternate,
    time-changed monotone and equal to the next event's time, warm-up once at the warm-up time, replication
    end once and last); ENDED is final; the run thread is gone after ENDED / cleanup.
    S->C: all command sequences of the small graph (edge cover) + simulated long sequences replayed;
    C->S: random command sequences validated by TraceDEVS.tla.
(b) Overlap layer: SimThreads.tla (checks/c04_threads.py).
"""
from __future__ import annotations

from harness.core import Ctx
from harness import drive_devs as dd
from checks import devs_common as dc

PID = "C04"
ALL = dc.ALL_CMDS


def quiescent_layer(ctx: Ctx):
    q = ctx.quick
    small = dict(Prios=[5], RelDelays=[1], AbsTimes=[], BadKinds=[], MaxOps=1, EndT=2, WarmT=1, MaxId=3)
    need = ("Start", "Step", "Stop", "RunUpTo", "Pause", "EndReplication", "Cleanup", "Initialize", "Emit", "ExecNext", "SegmentEnd", "StepEnd", "AnnounceTC")
    dc.model_check(ctx, "DEVS lifecycle: all commands, sequences <= 5", dc.consts(Cmds=ALL, Bounds=[1, 2], MaxCmds=5 if q else 6, MaxInits=2, **small),
                   need_actions=need)
    groups = {}
    bi = 0
    cs = dc.consts(MaxId=5, MaxOps=1, Prios=[5, 10], RelDelays=[0, 1, 2], AbsTimes=[], BadKinds=["hstart", "hrun", "hstep", "reinit"], HStopOps=True, Cmds=ALL, Bounds=[0, 1, 2, 3, 4],
                   MaxCmds=10, MaxInits=3, EndT=3, WarmT=1)
    behs = dc.simulate(ctx, "DEVS lifecycle (any first command)", cs, num=ctx.pick(100, 1000), depth=60, seed=ctx.seed + 40, init_first=False) + \
        dc.simulate(ctx, "DEVS lifecycle (initialize first)", cs, num=ctx.pick(200, 2000), depth=60, seed=ctx.seed + 41)
    for beh in behs:
        conc = dd.CONCS_OFF[bi % len(dd.CONCS_OFF)]
        tr = dc.replay(ctx, beh, conc, cs, f"behaviour {bi}")
        ctx.evaluations += 1
        ctx.distinct.add(repr([(s["op"]["a"], s["op"].get("arg"), s["op"].get("res")) for _, _, s in beh if s["op"]["a"] not in ("Notif", "Exec")]))
        if tr:
            groups.setdefault((cs["EndT"], cs["WarmT"], cs["Strategy"]), []).append((tr, f"S->C behaviour {bi} {conc}"))
        if bi == 0:
            ctx.sample({"kind": "S->C command sequence", "commands": [(s["op"]["a"], s["op"].get("arg"), s["op"].get("res")) for _, _, s in beh if s["op"]["a"] not in ("Notif", "Exec")][:14]})
        bi += 1
        if len(ctx.violations) > 15:
            break
    if len(ctx.violations) > 15:
        return          # the run already fails: skip the random runs (a broken tree makes them slow)
    n = ctx.pick(300, 3000)
    for i in range(n):
        conc = dd.CONCS_OFF[i % len(dd.CONCS_OFF)]
        end_t, warm_t = ctx.rng.choice([(3, 1), (4, 0), (4, 4)])
        ctl = dc.random_run(ctx, ctx.rng, conc, end_t, warm_t, "pause", cmds=ALL, ncmds=ctx.rng.choice([4, 8, 14]),
                            maxev=ctx.rng.choice([4, 8]), reinit=True, p_fault=ctx.rng.choice([0.0, 0.0, 0.3]),
                            probe_cmds=i % 3 == 1, one_shots=i % 2 == 1)     # (listeners that issue commands while STARTING; self-unsubscribing subscribers in front of the observer)
        ctx.evaluations += 1
        if ctl.errors:
            ctx.violation(dc.err_key(ctl.errors), f"random command sequence {i}: {ctl.errors}", {"trace": dd.clean_trace(ctl.trace)})
            continue
        groups.setdefault((end_t, warm_t, "pause"), []).append((dd.clean_trace(ctl.trace), f"random command sequence {i} {conc}"))
    dc.validate_groups(ctx, groups)
    dc.selftest(ctx, groups)


def run(ctx: Ctx):
    ctx.assumptions += ["(a) commands are issued at quiescence (run thread parked); a pause is a stop() issued while a handler runs",
                        "STARTING / STOPPING notifications (not named by the property) are not subscribed to"]
    if ctx.replay:
        return dc.replay_case(ctx)
    quiescent_layer(ctx)
    try:
        from checks import c04_threads
    except ImportError:
        c04_threads = None
    # the TIME_CHANGED stream stays non-decreasing and equal to the time of the event about to run when LISTENERS schedule events too
    from checks import c02 as _c02
    _c02.listener_scheduling(ctx, scale=0.4)
    # every notification of the run thread (START, TIME_CHANGED, WARMUP, STOP) is stamped with the simulator time, across bounded segments and steps
    _c02.segment_listeners(ctx, scale=0.5)
    if c04_threads:
        c04_threads.overlap_layer(ctx)
