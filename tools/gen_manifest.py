#!/usr/bin/env python3
"""Regenerates /verif/MANIFEST.json from the table below and validates it against the
schema (when jsonschema is importable)."""
import json
import os

VERIF = os.path.dirname(os.path.dirname(os.path.abspath(__file__)))

CLAIMED = {
    "C01": dict(
        technique="TLA+ model checking (TLC) of EventList/EventListHeap + TLAPS order lemmas + two-way trace conformance with the real EventListHeap",
        category="model_checking",
        text="TLC checks every add/remove/pop/peek/contains/size/clear history up to the bound on the abstract pending-set "
             "specification and on the heap-array refinement (heapq sift algorithms transcribed); TLAPS proves the event order is a "
             "strict total order for all integers; TLC-generated behaviours (edge cover of the small graph + simulation of a larger "
             "instance) are replayed on the real EventListHeap under int/float/Duration/mixed-unit times, and seeded random histories "
             "recorded from the real class are validated event by event against the specification in batch by TLC.",
        design_ref="DESIGN.md §5 C01",
        note="Trusted: the projection (ids = creation rank, times = 4*t integers), TLC/TLAPS, the assumption that a pending event is not added twice.",
    ),
    "C02": dict(
        technique="TLA+ model checking (TLC) of DEVS.tla over all handler programs + trace conformance with the real float/int/Duration simulators",
        category="model_checking",
        text="DEVS.tla gives the sequential simulator semantics with lazily fixed handler programs; TLC checks exactly-once, order, clock "
             "discipline and agreement with a big-step reference run for every program up to the bound; simulated behaviours are replayed on "
             "the real DEVSSimulatorFloat/Int/Duration (request results, executed trace, clock, pending set, states compared) and recorded "
             "runs of seeded random programs are validated against TraceDEVS.tla with all invariants evaluated at every step. "
             "ClockListeners.tla specifies the clock discipline when TIME_CHANGED listeners (not only handlers) schedule events: TLC checks "
             "clock / TIME_CHANGED monotonicity and nothing-in-the-past, refutes the pinned tree's deviation (constant OldClockDuringTC), and "
             "recorded runs of such models are validated by TraceClockListeners.tla. RunListeners.tla extends this to bounded segments and "
             "step() with listeners of START / TIME_CHANGED / WARMUP / STOP that schedule and cancel (stamp = simulator time, exactly once, "
             "in order, segment completeness; self-test constant StampLag refuted); segmented real runs are validated by TraceRunListeners.tla.",
        design_ref="DESIGN.md §5 C02, §9.3",
        note="Trusted: projection (event identity = creation rank, times on the k/4 grid), quiescence wait on the run thread, TLC.",
    ),
    "C03": dict(
        technique="TLA+ model checking (TLC) of DEVS.tla segmentations vs big-step reference + two-way conformance with pauses by rendezvous",
        category="model_checking",
        text="All sequences of start / run_up_to / run_up_to_including / step / pause commands up to the bound over all small programs: "
             "bounded-run semantics, never beyond the end, resumability, and AgreesWithReference (segmented run = uninterrupted run); the "
             "segmentations are replayed on the real simulators (stop() forced while the k-th handler runs) and random programs x random "
             "segmentations are validated by TraceDEVS.tla. ClockListeners.tla (step mode) and RunListeners.tla (bounded and step segments "
             "with scheduling / cancelling listeners of every run-thread notification) are model-checked and bound to segmented real runs by "
             "TraceClockListeners.tla / TraceRunListeners.tla.",
        design_ref="DESIGN.md §5 C03, C02 (growth: RunListeners)",
        note="Trusted: as C02; a pause is a stop() issued during a handler (no wall-clock sleeps).",
    ),
    "C05": dict(
        technique="TLA+ model checking (TLC) of DEVS.tla with raising handlers (fault enumeration) + two-way conformance with injected faults",
        category="model_checking",
        text="Every handler may raise, under the continue and pause strategies and under start / bounded runs / step: the executed sequence "
             "must equal the fault-free reference, a fault pause ends the segment right after the failing event and is resumable; replayed "
             "with injected RuntimeErrors on the real simulators (LOG_AND_CONTINUE, WARN_AND_CONTINUE, WARN_AND_PAUSE) and validated from "
             "recorded random runs.",
        design_ref="DESIGN.md §5 C05",
        note="Trusted: as C02; faults are exceptions raised at the end of a handler.",
    ),
    "C06": dict(
        technique="TLA+ model checking (TLC) of DEVS.tla with repeated initialize after arbitrary histories + trace conformance incl. statistics digests",
        category="model_checking",
        text="Initialize after every prior history (never started, stepped, bounded run, paused, fault-paused, ended): fresh state, and each "
             "replication executes the reference sequence of the lazily fixed program; replayed on real simulators whose model creates the "
             "four Sim statistics in construct_model; recorded traces additionally run the same model on a brand-new simulator and "
             "TraceDEVS.tla requires the statistics digest of every complete replication to equal the first one.",
        design_ref="DESIGN.md §5 C06",
        note="Trusted: as C02; statistics compared through all public getters as hex floats.",
    ),
    "C08": dict(
        technique="TLA+ model checking (TLC) of PubSub.tla with re-entrant delivery stack + payload table + two-way trace conformance",
        category="model_checking",
        text="All subscribe / unsubscribe (4 forms) / fire / fire_timed histories with nested firing up to the bound: ExactlySnapshot "
             "(delivery to exactly the subscribers at the moment of firing, once, in order); the 660-row constructor table of EventPayload.tla "
             "is executed row by row; simulated behaviours are replayed with scripted re-entrant listeners and random histories validated by "
             "TracePubSub.tla.",
        design_ref="DESIGN.md §5 C08",
        note="Trusted: projection (content tag = event id, scaled timestamps), listeners only use the public producer API.",
    ),
    "C12": dict(
        technique="TLA+ model checking (TLC) of Streams.tla + TLC-computed integer-draw table + memo-based trace conformance with real MersenneTwister streams",
        category="model_checking",
        text="Streams.tla models a stream as (seed label, generator coordinate <<gseed,pos>>) under new/draw/set_seed/reset/save/restore; TLC "
             "checks independence, reset and restore semantics for all interleavings up to the bound; IntDraw.tla gives lo+floor((hi-lo+1)u) exactly "
             "for scripted uniforms; behaviours are replayed on real streams and random interleavings over huge/negative seeds and ranges are "
             "validated by TraceStreams.tla whose memo requires bit-identical uniforms at equal coordinates across streams, resets and restores.",
        design_ref="DESIGN.md §5 C12",
        note="Trusted: uniforms behind int/bool draws are observed via save/next_float/restore (recorded events); exact range arithmetic in the projection.",
    ),
    "C16": dict(
        technique="TLA+ model checking (TLC) of Units.tla over tables generated from the live module + SIString.tla parser/printer round trip + execution of every row",
        category="model_checking",
        text="UnitsData.tla is dumped from the live _mul/_div/_sidict tables; TLC checks signature soundness of every table entry and of all "
             "ordered pairs of types, and Parse(Spell(sig,format))=sig for all bounded signatures in 8 formats (parser transcribed from the code); "
             "every pair row is then executed (*, /, +, -, comparisons, numbers, SI operands, as_quantity, operand reuse) and every spelled "
             "string is parsed / printed / re-parsed by the real code.",
        design_ref="DESIGN.md §5 C16",
        note="Trusted: table dump (harness/units_data.py), bitwise float comparison in the projection.",
    ),
    "C17": dict(
        technique="TLC evaluation of Units.tla well-formedness invariants over tables generated from the live module + exhaustive (class, unit) x sampled value conformance sweep",
        category="other",
        text="Structural part (base unit factor one, every unit described, display spelling is text, alias spellings share a factor, every "
             "advertised name exists) is decided by TLC over the dumped tables, exhaustively; the numeric part (si = value*factor bitwise, "
             "displayvalue, as_unit keeps si, comparison/neg/abs/add/sub on si, compound units) is a sweep over all classes and units with "
             "sampled values — TLA+ contributes the invariants, not the float arithmetic.",
        design_ref="DESIGN.md §5 C17",
        note="Numeric agreement is sampled over values; exhaustive over the 42 classes and 852 declared units.",
    ),
    "C09": dict(
        technique="TLA+ model checking (TLC) of Stats.tla with exact rational getters + execution of every transition on the real Tally/Counter classes through exact affine images",
        category="model_checking",
        text="Stats.tla keeps the observations and defines every public getter as an exact rational (or NaN) from the documented formulas, so the "
             "definedness table and all values for every history up to the bound are TLC's; each transition of the complete graph is executed on "
             "Tally, EventBasedTally (with and without subscribers), Counter and EventBasedCounter, with data fed through exact dyadic affine images "
             "(large offset / small spread, negative scale) and a 200-fold repetition; getters are compared at 1e-9 relative plus a condition-number term.",
        design_ref="DESIGN.md §5 C09",
        note="Arbitrary float data is not enumerated: accuracy is asserted on affine images and repetitions of TLC-enumerated integer patterns; z quantiles from statistics.NormalDist.",
    ),
    "C10": dict(
        technique="TLA+ model checking (TLC) of Stats.tla weighted / timestamp machines with exact rational getters + execution of every transition on the real classes",
        category="model_checking",
        text="All histories of weighted observations (zero weights, all-zero weights) and of timestamped observations (repeats, earlier timestamps, "
             "closing, use after closing, re-initialisation) up to the bound with exact getters and TotalWeightIsSpan; every transition is executed on "
             "WeightedTally / TimestampWeightedTally and their event-publishing variants with scaled weights and times.",
        design_ref="DESIGN.md §5 C10",
        note="As C09; weighted mean with zero total weight may be NaN or 0 (statement silent).",
    ),
    "C18": dict(
        technique="TLA+ model checking (TLC) of Params.tla parameter-tree state machine + replay of edge cover and simulated behaviours on real InputParameter* objects and DSOLModel",
        category="model_checking",
        text="Params.tla: construct (valid / out-of-bounds / ill-typed default, duplicate keys), set_value classes, model set/get, get/remove by "
             "dotted path on trees of maps and leaves with priorities; invariants ValueValid, DefaultNeverChanges, ReadOnlyNeverChanges, "
             "RejectedLeavesUnchanged, UniqueKeys, EveryNodeReachable, ModelSetGetRoundTrip for all operation sequences up to the bound; every "
             "transition of a small graph and simulated behaviours over all eight parameter kinds are replayed on the real classes with a full "
             "projection (value class, default, listing order, reachability by extended key) after each action.",
        design_ref="DESIGN.md §5 C18",
        note="Trusted: concretisation of value classes per kind; paths relative to the model's root map.",
    ),
    "C13": dict(
        technique="TLC-enumerated outcome table (SeedUpdate.tla) + trace validation of update events from several interpreter processes against one memo (TraceSeedUpdate.tla)",
        category="model_checking",
        text="SeedUpdate.tla fixes which update requests are refused / taken from the seed list / computed; children started with different "
             "PYTHONHASHSEED values and different dict listing orders execute the table rows and seeded random configurations (non-ASCII, empty "
             "and long names, huge and negative seeds); all their events form one trace in which TLC requires the computed seed to be a function "
             "of (name, original seed, r), the first draws a function of the seed, and refused updates to leave the stream unchanged.",
        design_ref="DESIGN.md §5 C13",
        note="TLC does not start interpreters: the harness does; TLC decides equality across processes (strings).",
    ),
    "C14": dict(
        technique="TLC-enumerated domain/support tables (Dist.tla) and stream-pointer/cache state machine (DistState.tla) executed on the real distributions with scripted and counting streams",
        category="model_checking",
        text="Dist.tla enumerates, for 19 classes and their parameter regimes (algorithmic branches and out-of-domain regions), what the constructor "
             "must do and the support every draw must lie in for every scripted stream prefix over the alphabet of extreme uniforms "
             "{0, 5e-324, 2^-53, 1/4, 1/2, 3/4, 1-2^-53}; every row is executed (must terminate, not raise, land in the support). DistState.tla "
             "models stream pointers, the polar-normal cache and re-pointing; its behaviours are replayed on real instances over counting "
             "streams with a twin system in lockstep (purity, instance isolation, the old stream never consumed again).",
        design_ref="DESIGN.md §5 C14",
        note="Genuine deviations at extreme uniforms (D14) are listed in known_findings.json by (class, regime, outcome, triggering uniform); support membership is classified by the projection.",
    ),
    "C07": dict(
        technique="trace validation (TLC) of runs recorded in several interpreter processes against one DEVS/SimStats/PubSub specification with shared program and statistics memo",
        category="model_checking",
        text="Reproducibility is determinism of the closed specification: hash seed, object identity, event counters, speed and pause positions are "
             "not variables of DEVS.tla. Child interpreters (PYTHONHASHSEED 0/1/12345/random, unrelated prior activity, pilot replications, "
             "different step and pause plans) run one stochastic model with pub/sub fan-out; their traces are concatenated and TLC requires that "
             "what handler k requested (in listener order) is one function of k, that every replication executes the reference sequence, that "
             "every complete replication has the same statistics digest, and (TracePubSub.tla) that every fan-out is delivered in subscription order.",
        design_ref="DESIGN.md §5 C07",
        note="TLC does not start interpreters: the harness does. Delays are on the k/4 grid; raw draws are compared through the statistics digest.",
    ),
    "C11": dict(
        technique="TLA+ model checking (TLC) of SimStats.tla (DEVS.tla + Stats.tla exact getters) + two-way conformance with a statistics-creating model",
        category="model_checking",
        text="What SimCounter/SimTally/SimWeightedTally/SimPersistent must report is derived in TLA+ from the executed sequence (handler events after "
             "the warm-up event; persistent closed at the replication end) with exact rational getters; exhaustive small configuration, simulated "
             "behaviours replayed on real simulators comparing every getter at every quiescent point, the registry and 'published payload == getter at "
             "that moment'; random schedules (ties at the warm-up instant, pauses, bounded runs, re-initialisation) recorded and validated by "
             "TraceDEVS.tla, which also prints the exact expectation for the recorded final observation.",
        design_ref="DESIGN.md §5 C11",
        note="Observation values are fixed functions of the event rank (small integers, at most 6 per replication when exact values are requested: TLC integers are 32 bit).",
    ),
    "C04": dict(
        technique="TLA+ model checking (TLC) of DEVS.tla over the full command alphabet and of SimThreads.tla (PlusCal, one label per shared access), bound to the real simulator by replay, access-interposition scheduling of the real threads and trace validation",
        category="model_checking",
        text="(a) all command sequences (initialize, start, step, stop, bounded runs, end_replication, cleanup, pause) up to the bound, and "
             "commands issued by handlers while the simulator runs (start / step / run_up_to / initialize: refused; stop: pauses after the event; "
             "end_replication): refusals change nothing, notification-stream invariants, ENDED final, run thread gone after ENDED/cleanup; replayed "
             "on the real simulators and validated from recorded random command sequences. (b) SimThreads.tla models the caller and the run thread "
             "at the granularity of accesses to run_state / replication_state / runflag / finalized / the wake-up Event, for caller scripts over "
             "start, stop, end_replication and cleanup with failing handlers, handlers that call stop() or cleanup(), and START_EVENT / STOP_EVENT listeners that "
             "issue stop() / start() on the run thread; TLC checks every interleaving for nine safety invariants (seven race / listener families of "
             "the pinned tree are set aside by history flags and reported as known findings) and, under fairness of both threads and of the clock, "
             "liveness (the threads settle, every command returns, ENDED implies the run thread terminates); every TLC behaviour incl. the "
             "counterexamples and one path per transition of the state graph is executed on the REAL threads by a cooperative scheduler that "
             "interposes on those accesses (announced access = label, shared state = specification state), random real schedules are validated by "
             "TraceSimThreads.tla, and verdicts come from observables on the real objects at quiescence.",
        design_ref="DESIGN.md §5 C04, §9.2, §9.7",
        note="(a) commands at quiescence and from handlers; (b) assumes a runnable thread takes a step within the code's one-second waits "
             "(a spin wait times out only when the other thread is blocked or gone); initialize / step overlapping the run thread are not in the thread model.",
    ),
}

NOT_APPLICABLE = {
    "C15": "statistical goodness of fit / numerical quadrature over the reals: no state or transition for TLC to enumerate (DESIGN.md §6)",
}

PENDING_REASON = "check not built yet in this round (planned, DESIGN.md §5); not claimed until its check exists"


def main():
    props = [json.loads(l)["id"] for l in open(os.path.join(VERIF, "properties.jsonl"))]
    checks = []
    for pid in props:
        if pid not in CLAIMED:
            continue
        c = CLAIMED[pid]
        checks.append({
            "property_id": pid,
            "quick_cmd": f"./check {pid} --tier quick",
            "thorough_cmd": f"./check {pid} --tier thorough",
            "evidence_file": f"/verif/evidence/{pid}.json",
            "replay_cmd_template": f"./check {pid} --replay {{path}}",
            "engine": "tlc-conformance",
            "level_claimed": {"category": c["category"], "text": c["text"], "design_ref": c["design_ref"]},
            "level_note": c["note"],
            "technique": c["technique"],
        })
    na = []
    for pid in props:
        if pid in CLAIMED:
            continue
        na.append({"property_id": pid, "reason": NOT_APPLICABLE.get(pid, PENDING_REASON)})
    man = {
        "version": 1,
        "setup_cmd": "./setup.sh",
        "hooks": {
            "guard": "PYDSOL_CORE_VERIF",
            "enable": "no source hooks exist: checks import /repo/src live (PYTHONPATH) and observe through the public API, "
                      "private attributes and harness-side interposition; ./check exports PYDSOL_CORE_VERIF=1 for form",
            "baseline_off_cmd": "cd /repo && env -u PYDSOL_CORE_VERIF /venv/bin/python -m pytest -ra -q -p no:cacheprovider --timeout=900 --continue-on-collection-errors",
            "source_commits": [],
            "add_only": True,
        },
        "engines": [{
            "name": "tlc-conformance",
            "path": "/verif/check",
            "serves_properties": sorted(CLAIMED),
            "kind_free_text": "explicit TLA+ specifications (specs/*.tla) model-checked by TLC, proved by TLAPS where unbounded, and bound to the "
                              "Python implementation by replaying TLC behaviours into the code (S->C) and validating recorded traces against Trace*.tla (C->S)",
        }],
        "checks": checks,
        "not_applicable": na,
        "notes": "Fixes committed to /repo are listed in known_findings.json under 'fixed' (they suppress nothing). See DESIGN.md.",
    }
    with open(os.path.join(VERIF, "MANIFEST.json"), "w") as fh:
        json.dump(man, fh, indent=1)
    try:
        import jsonschema
        jsonschema.validate(man, json.load(open("/root/.vp/MANIFEST.schema.json")))
        print("MANIFEST.json valid;", len(checks), "checks,", len(na), "not claimed")
    except ImportError:
        print("MANIFEST.json written (jsonschema not importable here)")


if __name__ == "__main__":
    main()
