#!/usr/bin/env python3
"""Regenerates /verif/MANIFEST.json from the table below and validates it against the
schema (when jsonschema is importable)."""
import json
import os

VERIF = os.path.dirname(os.path.dirname(os.path.abspath(__file__)))

CLAIMED = {
    "C01": dict(
        technique="TLA+ model checking (TLC) of EventList/EventListHeap + TLAPS order lemmas + two-way trace conformance with the real EventListHeap",
        category="model_checking",
        text="TLC checks every add/remove/pop/peek/contains/size/clear history up to the bound on the abstract pending-set "
             "specification and on the heap-array refinement (heapq sift algorithms transcribed); TLAPS proves the event order is a "
             "strict total order for all integers; TLC-generated behaviours (edge cover of the small graph + simulation of a larger "
             "instance) are replayed on the real EventListHeap under int/float/Duration/mixed-unit times, and seeded random histories "
             "recorded from the real class are validated event by event against the specification in batch by TLC.",
        design_ref="DESIGN.md §5 C01",
        note="Trusted: the projection (ids = creation rank, times = 4*t integers), TLC/TLAPS, the assumption that a pending event is not added twice.",
    ),
}

NOT_APPLICABLE = {
    "C15": "statistical goodness of fit / numerical quadrature over the reals: no state or transition for TLC to enumerate (DESIGN.md §6)",
}

PENDING_REASON = "check not built yet in this round (planned, DESIGN.md §5); not claimed until its check exists"


def main():
    props = [json.loads(l)["id"] for l in open(os.path.join(VERIF, "properties.jsonl"))]
    checks = []
    for pid in props:
        if pid not in CLAIMED:
            continue
        c = CLAIMED[pid]
        checks.append({
            "property_id": pid,
            "quick_cmd": f"./check {pid} --tier quick",
            "thorough_cmd": f"./check {pid} --tier thorough",
            "evidence_file": f"/verif/evidence/{pid}.json",
            "replay_cmd_template": f"./check {pid} --replay {{path}}",
            "engine": "tlc-conformance",
            "level_claimed": {"category": c["category"], "text": c["text"], "design_ref": c["design_ref"]},
            "level_note": c["note"],
            "technique": c["technique"],
        })
    na = []
    for pid in props:
        if pid in CLAIMED:
            continue
        na.append({"property_id": pid, "reason": NOT_APPLICABLE.get(pid, PENDING_REASON)})
    man = {
        "version": 1,
        "setup_cmd": "./setup.sh",
        "hooks": {
            "guard": "PYDSOL_CORE_VERIF",
            "enable": "no source hooks exist: checks import /repo/src live (PYTHONPATH) and observe through the public API, "
                      "private attributes and harness-side interposition; ./check exports PYDSOL_CORE_VERIF=1 for form",
            "baseline_off_cmd": "cd /repo && env -u PYDSOL_CORE_VERIF /venv/bin/python -m pytest -ra -q -p no:cacheprovider --timeout=900 --continue-on-collection-errors",
            "source_commits": [],
            "add_only": True,
        },
        "engines": [{
            "name": "tlc-conformance",
            "path": "/verif/check",
            "serves_properties": sorted(CLAIMED),
            "kind_free_text": "explicit TLA+ specifications (specs/*.tla) model-checked by TLC, proved by TLAPS where unbounded, and bound to the "
                              "Python implementation by replaying TLC behaviours into the code (S->C) and validating recorded traces against Trace*.tla (C->S)",
        }],
        "checks": checks,
        "not_applicable": na,
        "notes": "Fixes committed to /repo are listed in known_findings.json under 'fixed' (they suppress nothing). See DESIGN.md.",
    }
    with open(os.path.join(VERIF, "MANIFEST.json"), "w") as fh:
        json.dump(man, fh, indent=1)
    try:
        import jsonschema
        jsonschema.validate(man, json.load(open("/root/.vp/MANIFEST.schema.json")))
        print("MANIFEST.json valid;", len(checks), "checks,", len(na), "not claimed")
    except ImportError:
        print("MANIFEST.json written (jsonschema not importable here)")


if __name__ == "__main__":
    main()
