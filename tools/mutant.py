#!/usr/bin/env python3
"""Confirm a seeded change and run checks against it.

usage: mutant.py verify <srcdir> <seed-id> <property>   # srcdir has patch.diff demo.py notes.md
          -> in a scratch worktree of /repo HEAD: patch applies, demo passes clean / fails patched,
             the 111 tests pass patched; on success copies to /verif/seeded/<seed-id>/ with meta.json
       mutant.py run <seed-id> [check ids...] [--tier quick]
          -> git -C /repo apply, run ./check for each id, git checkout -- . ; records results in meta.json
"""
import json
import os
import shutil
import subprocess
import sys
import tempfile

VERIF = os.path.dirname(os.path.dirname(os.path.abspath(__file__)))
SEEDED = os.path.join(VERIF, "seeded")
PY = "/venv/bin/python"


def sh(cmd, cwd=None, env=None, timeout=1800):
    p = subprocess.run(cmd, cwd=cwd, env=env, shell=isinstance(cmd, str), capture_output=True, text=True, timeout=timeout)
    return p.returncode, p.stdout + p.stderr


def verify(src, sid, prop):
    patch = os.path.join(src, "patch.diff")
    demo = os.path.join(src, "demo.py")
    wt = tempfile.mkdtemp(prefix="mutv_", dir="/tmp")
    os.rmdir(wt)
    rc, out = sh(["git", "-C", "/repo", "worktree", "add", "-q", "--detach", wt, "HEAD"])
    assert rc == 0, out
    res = {}
    try:
        env = dict(os.environ, PYTHONPATH=os.path.join(wt, "src"), PYTHONDONTWRITEBYTECODE="1")
        rc, out = sh(["git", "-C", wt, "apply", "--check", patch]); res["apply_check"] = rc == 0
        if rc:
            print("patch does not apply:", out); return False
        rc, out = sh([PY, demo], cwd=wt, env=env, timeout=600); res["demo_clean_rc"] = rc
        sh(["git", "-C", wt, "apply", patch])
        rc, out = sh([PY, demo], cwd=wt, env=env, timeout=600); res["demo_patched_rc"] = rc; res["demo_patched_tail"] = out[-600:]
        rc, out = sh([PY, "-m", "pytest", "-q", "-p", "no:cacheprovider", "--timeout=900", "tests"], cwd=wt, env=env)
        res["tests_patched_rc"] = rc; res["tests_tail"] = out.strip().splitlines()[-1] if out.strip() else ""
        _, stat = sh(["git", "-C", wt, "diff", "--stat"]); res["diffstat"] = stat.strip().splitlines()[-1] if stat.strip() else ""
    finally:
        sh(["git", "-C", "/repo", "worktree", "remove", "--force", wt])
        shutil.rmtree(wt, ignore_errors=True)
    ok = res["demo_clean_rc"] == 0 and res["demo_patched_rc"] != 0 and res["tests_patched_rc"] == 0
    print(json.dumps(res, indent=1))
    if not ok:
        print("NOT CONFIRMED")
        return False
    dst = os.path.join(SEEDED, sid)
    os.makedirs(dst, exist_ok=True)
    shutil.copy(patch, dst); shutil.copy(demo, dst)
    notes = open(os.path.join(src, "notes.md")).read() if os.path.exists(os.path.join(src, "notes.md")) else ""
    head = sh(["git", "-C", "/repo", "rev-parse", "--short", "HEAD"])[1].strip()
    meta = {"id": sid, "breaks_property": prop, "needs_to_manifest": notes.strip(),
            "confirmed": {"repo_head": head, "demo_clean_exit": res["demo_clean_rc"], "demo_patched_exit": res["demo_patched_rc"],
                          "tests_patched": res["tests_tail"], "diffstat": res["diffstat"],
                          "how": "scratch worktree of /repo HEAD: git apply --check; demo on clean tree; apply; demo; full pytest suite; worktree removed"},
            "checks": {}}
    json.dump(meta, open(os.path.join(dst, "meta.json"), "w"), indent=1)
    print("CONFIRMED ->", dst)
    return True


def run_isolated(sid, ids, tier):
    """run the checks against a scratch worktree of /repo HEAD with the patch applied (does not touch /repo, evidence goes to a scratch dir)"""
    dst = os.path.join(SEEDED, sid)
    meta = json.load(open(os.path.join(dst, "meta.json")))
    ids = ids or [meta["breaks_property"]]
    wt = tempfile.mkdtemp(prefix="mutr_", dir="/tmp")
    os.rmdir(wt)
    rc, out = sh(["git", "-C", "/repo", "worktree", "add", "-q", "--detach", wt, "HEAD"])
    assert rc == 0, out
    try:
        rc, out = sh(["git", "-C", wt, "apply", os.path.join(dst, "patch.diff")])
        if rc:
            print(f"{sid}: PATCH DOES NOT APPLY to current HEAD: {out.strip()[:200]}")
            return
        vcopy = tempfile.mkdtemp(prefix="mutv_", dir="/tmp")
        src = os.environ.get("VERIF_FROZEN", VERIF)      # a frozen copy of /verif, so that edits made during a long regression do not leak in
        sh(f"cp -r {src}/check {src}/checks {src}/harness {src}/specs {src}/known_findings.json {vcopy}/ && mkdir -p {vcopy}/evidence {vcopy}/replays")
        for pid in ids:
            env = dict(os.environ, VERIF_REPO=wt)
            rc, out = sh([os.path.join(vcopy, "check"), pid, "--tier", tier], cwd=vcopy, env=env, timeout=7200)
            viol = [l for l in out.splitlines() if l.startswith("VIOLATION")]
            print(f"{sid} {pid} {tier}: exit={rc} {'DETECTED' if rc == 1 else 'MISSED' if rc == 0 else 'MACHINERY'}" + (f" :: {viol[0][:200]}" if viol else ""))
            meta["checks"][f"{pid}:{tier}"] = {"exit": rc, "first_violation": (viol[0][:400].replace(vcopy, "/verif") if viol else None), "n_violation_lines": len(viol)}
        json.dump(meta, open(os.path.join(dst, "meta.json"), "w"), indent=1)
        shutil.rmtree(vcopy, ignore_errors=True)
    finally:
        sh(["git", "-C", "/repo", "worktree", "remove", "--force", wt])
        shutil.rmtree(wt, ignore_errors=True)


def run(sid, ids, tier):
    dst = os.path.join(SEEDED, sid)
    meta = json.load(open(os.path.join(dst, "meta.json")))
    ids = ids or [meta["breaks_property"]]
    rc, out = sh(["git", "-C", "/repo", "status", "--porcelain"])
    assert out.strip() == "", "repo not clean: " + out
    rc, out = sh(["git", "-C", "/repo", "apply", os.path.join(dst, "patch.diff")])
    assert rc == 0, out
    try:
        for pid in ids:
            rc, out = sh([os.path.join(VERIF, "check"), pid, "--tier", tier], cwd=VERIF, timeout=7200)
            viol = [l for l in out.splitlines() if l.startswith("VIOLATION")]
            meta["checks"][f"{pid}:{tier}"] = {"exit": rc, "first_violation": viol[0][:400] if viol else None,
                                               "n_violation_lines": len(viol)}
            print(f"{sid} {pid} {tier}: exit={rc} {'DETECTED' if rc == 1 else 'MISSED' if rc == 0 else 'MACHINERY'}")
            for l in viol[:3]:
                print("   ", l[:300])
            if rc == 2:
                print(out[-1500:])
    finally:
        sh(["git", "-C", "/repo", "checkout", "--", "."])
        # restore evidence files from git (they were rewritten on the mutated tree)
        sh(["git", "-C", VERIF, "checkout", "--", "evidence"])
    json.dump(meta, open(os.path.join(dst, "meta.json"), "w"), indent=1)


if __name__ == "__main__" and sys.argv[1] != "benign":
    if sys.argv[1] == "verify":
        sys.exit(0 if verify(*sys.argv[2:5]) else 1)
    elif sys.argv[1] == "run":
        args = sys.argv[2:]
        tier = "quick"
        if "--tier" in args:
            i = args.index("--tier"); tier = args[i + 1]; del args[i:i + 2]
        run(args[0], args[1:], tier)
    elif sys.argv[1] == "iso":
        args = sys.argv[2:]
        tier = "quick"
        if "--tier" in args:
            i = args.index("--tier"); tier = args[i + 1]; del args[i:i + 2]
        run_isolated(args[0], args[1:], tier)


# ----------------------------------------------------------------------------- benign (behaviour-preserving) changes
BENIGN_CHECKS = {"B1": ["C02", "C03", "C04", "C05", "C06", "C07", "C11"], "B2": ["C01", "C02", "C03", "C04", "C05", "C06", "C11"],
                 "B3": ["C08", "C04", "C07", "C11"], "B4": ["C09", "C10", "C11", "C06", "C07"], "B5": ["C12", "C13", "C14", "C18", "C07"],
                 "B6": ["C16", "C17", "C18", "C06", "C11"], "B7": ["C02", "C03", "C04", "C05", "C06", "C07", "C11"], "B8": ["C12", "C13", "C14", "C07"]}


def run_benign(bid, ids, tier):
    """a behaviour-preserving change must leave every check silent (exit 0); results go to benign/<id>/result.json"""
    dst = os.path.join(VERIF, "benign", bid)
    ids = ids or BENIGN_CHECKS[bid.split("-")[0]]
    wt = tempfile.mkdtemp(prefix="mutr_", dir="/tmp")
    os.rmdir(wt)
    rc, out = sh(["git", "-C", "/repo", "worktree", "add", "-q", "--detach", wt, "HEAD"])
    assert rc == 0, out
    res = {}
    try:
        rc, out = sh(["git", "-C", wt, "apply", os.path.join(dst, "patch.diff")])
        if rc:
            print(f"{bid}: PATCH DOES NOT APPLY: {out.strip()[:200]}")
            return
        rc, out = sh([PY, "-m", "pytest", "-q", "-p", "no:cacheprovider", "--timeout=900", "tests"], cwd=wt, env=dict(os.environ, PYTHONPATH=os.path.join(wt, "src")))
        res["tests"] = out.strip().splitlines()[-1] if out.strip() else ""
        vcopy = tempfile.mkdtemp(prefix="mutv_", dir="/tmp")
        src = os.environ.get("VERIF_FROZEN", VERIF)
        sh(f"cp -r {src}/check {src}/checks {src}/harness {src}/specs {src}/known_findings.json {vcopy}/ && mkdir -p {vcopy}/evidence {vcopy}/replays")
        for pid in ids:
            rc, out = sh([os.path.join(vcopy, "check"), pid, "--tier", tier], cwd=vcopy, env=dict(os.environ, VERIF_REPO=wt), timeout=7200)
            viol = [l for l in out.splitlines() if l.startswith("VIOLATION")]
            tail = [l for l in out.splitlines() if l.startswith("[")][-1:] or out.strip().splitlines()[-1:]
            res[f"{pid}:{tier}"] = {"exit": rc, "first_violation": (viol[0][:500].replace(vcopy, "/verif") if viol else None), "summary": (tail[0][:300] if tail else "")}
            print(f"{bid} {pid} {tier}: exit={rc} {'SILENT' if rc == 0 else 'FALSE-ALARM' if rc == 1 else 'MACHINERY'}" + (f" :: {viol[0][:260]}" if viol else (f" :: {tail[0][:200]}" if rc else "")))
        shutil.rmtree(vcopy, ignore_errors=True)
    finally:
        sh(["git", "-C", "/repo", "worktree", "remove", "--force", wt])
        shutil.rmtree(wt, ignore_errors=True)
    json.dump(res, open(os.path.join(dst, "result.json"), "w"), indent=1)


if __name__ == "__main__" and sys.argv[1] == "benign":
    args = sys.argv[2:]
    tier = "quick"
    if "--tier" in args:
        i = args.index("--tier"); tier = args[i + 1]; del args[i:i + 2]
    run_benign(args[0], args[1:], tier)
