#!/usr/bin/env python3
"""Exact string replacement in a CRLF file without touching other line endings.
usage: crlf_edit.py FILE OLDFILE NEWFILE   (old/new given with LF; converted to CRLF)"""
import sys
path, oldf, newf = sys.argv[1:4]
data = open(path, "rb").read()
old = open(oldf, "rb").read().replace(b"\r\n", b"\n").replace(b"\n", b"\r\n")
new = open(newf, "rb").read().replace(b"\r\n", b"\n").replace(b"\n", b"\r\n")
n = data.count(old)
if n != 1:
    sys.exit(f"old text occurs {n} times in {path}")
open(path, "wb").write(data.replace(old, new))
