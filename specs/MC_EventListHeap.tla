---- MODULE MC_EventListHeap ----
EXTENDS EventListHeap, TLC
CONSTANT MaxLevel
LevelBound == TLCGet("level") <= MaxLevel
====
