------------------------------ MODULE DistState ------------------------------
(* Distribution instances over streams: which stream a draw may consume, the   *)
(* per-instance cache of the polar normal method, and re-pointing.  A draw     *)
(* consumes uniforms from the instance's CURRENT stream only; zero exactly     *)
(* when a cached value is handed out; set_stream drops the cache and the old   *)
(* stream is never consumed again by that instance.                            *)
EXTENDS Integers, Sequences, FiniteSets
CONSTANTS Insts, Strms, Caching, MaxOps     \* Caching: instances of the normal family
VARIABLES ptr, cached, used, steps, op
dvars == <<ptr, cached, used, steps, op>>

Init == /\ ptr \in [Insts -> Strms] /\ cached = [i \in Insts |-> FALSE]
        /\ used = [s \in Strms |-> 0] /\ steps = 0 /\ op = [a |-> "Init"]

Draw(i) == /\ steps < MaxOps /\ steps' = steps + 1
           /\ IF i \in Caching /\ cached[i]
              THEN /\ cached' = [cached EXCEPT ![i] = FALSE] /\ used' = used
                   /\ op' = [a |-> "Draw", i |-> i, s |-> ptr[i], consumes |-> "none"]
              ELSE /\ cached' = [cached EXCEPT ![i] = (i \in Caching)]
                   /\ used' = [used EXCEPT ![ptr[i]] = 1]      \* "has been consumed since the last observation"
                   /\ op' = [a |-> "Draw", i |-> i, s |-> ptr[i], consumes |-> "some"]
           /\ ptr' = ptr

SetStream(i, s) == /\ steps < MaxOps /\ steps' = steps + 1
                   /\ ptr' = [ptr EXCEPT ![i] = s] /\ cached' = [cached EXCEPT ![i] = FALSE]
                   /\ used' = used /\ op' = [a |-> "SetStream", i |-> i, s |-> s]

DrawAny == \E i \in Insts : Draw(i)
SetAny == \E i \in Insts, s \in Strms : SetStream(i, s)
Next == DrawAny \/ SetAny
Spec == Init /\ [][Next]_dvars
OnlyOwnStream == [][op'.a = "Draw" => \A s \in Strms : s # ptr[op'.i] => used'[s] = used[s]]_dvars
=============================================================================
