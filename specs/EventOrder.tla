---------------------------- MODULE EventOrder ----------------------------
(* The order in which a discrete-event simulator must hand out events:      *)
(* smaller time first, then HIGHER priority, then earlier creation (id).    *)
(* A key is a record [t, p, id]; ids are unique, so Before is a strict      *)
(* total order on keys with distinct ids (proved for all integers with      *)
(* TLAPS in EventOrderProofs.tla; used by every other module).              *)
EXTENDS Integers

Before(a, b) ==
    \/ a.t < b.t
    \/ a.t = b.t /\ a.p > b.p
    \/ a.t = b.t /\ a.p = b.p /\ a.id < b.id

(* three-way comparison exactly as SimEvent.__cmp__ computes it *)
Cmp(a, b) ==
    IF a.t < b.t THEN -1 ELSE IF a.t > b.t THEN 1
    ELSE IF a.p < b.p THEN 1 ELSE IF a.p > b.p THEN -1
    ELSE IF a.id < b.id THEN -1 ELSE IF a.id > b.id THEN 1 ELSE 0

(* The least element of a non-empty finite set of keys. *)
MinKey(S) == CHOOSE a \in S : \A b \in S : b = a \/ Before(a, b)
=============================================================================
