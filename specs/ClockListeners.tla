--------------------------- MODULE ClockListeners ---------------------------
(* The clock discipline of the DEVS run loop when not only handlers but also  *)
(* LISTENERS of the TIME_CHANGED notification schedule events (C02: the clock *)
(* never moves backwards, nothing is scheduled in the past; C04: time-changed *)
(* notifications are non-decreasing and equal to the time of the event about  *)
(* to run).  The run loop takes the first event off the list, ANNOUNCES its   *)
(* time if it differs from the clock, and executes it.  "The time is changed  *)
(* first" (docstring of the loop): during the announcement the simulation     *)
(* time IS the announced time, so a listener's "now" is the announced time.   *)
EXTENDS Integers, Sequences, FiniteSets

CONSTANTS EndT, MaxEv, Delays, Prios,
          StepMode,          \* TRUE: the events are executed by step(), which announces TIME_CHANGED for EVERY event (also when the time stays)
          OldClockDuringTC   \* TRUE: the defect of the pinned tree (the clock is moved only AFTER the announcement, so a listener's
                             \* "now" is the old time and its event lies in the past of the event about to run); FALSE: as repaired

VARIABLES clock,      \* simulator time as handlers see it
          ev,         \* all events ever scheduled: [t, p], id = index
          pending,    \* ids on the event list
          ann,        \* time announced by TIME_CHANGED and not yet reached (-1: none)
          about,      \* the event taken off the list by the loop, about to run (0: none)
          lastTC,     \* timestamp of the last TIME_CHANGED (-1: none)
          op          \* last step (binding)
vars == <<clock, ev, pending, ann, about, lastTC, op>>

Now == IF ann # -1 /\ ~OldClockDuringTC THEN ann ELSE clock
Less(i, j) == \/ ev[i].t < ev[j].t
              \/ ev[i].t = ev[j].t /\ ev[i].p > ev[j].p
              \/ ev[i].t = ev[j].t /\ ev[i].p = ev[j].p /\ i < j
First(P) == CHOOSE i \in P : \A j \in P \ {i} : Less(i, j)

Init == /\ clock = 0 /\ ev = <<>> /\ pending = {} /\ ann = -1 /\ about = 0 /\ lastTC = -1
        /\ op = [a |-> "Init"]

(* anybody (construct_model, a handler, a TIME_CHANGED listener) schedules relative to the simulation time *)
Sched(by, d, p) ==
    /\ Len(ev) < MaxEv
    /\ ev' = Append(ev, [t |-> Now + d, p |-> p])
    /\ pending' = pending \cup {Len(ev) + 1}
    /\ op' = [a |-> "Sched", by |-> by, d |-> d, p |-> p, t |-> Now + d, id |-> Len(ev) + 1]
    /\ UNCHANGED <<clock, ann, about, lastTC>>

(* the loop takes the first event; its time differs from the clock: TIME_CHANGED is announced *)
Announce ==
    /\ about = 0 /\ pending # {}
    /\ LET m == First(pending) IN
         /\ (ev[m].t # clock \/ StepMode) /\ ev[m].t <= EndT
         /\ about' = m /\ pending' = pending \ {m}
         /\ ann' = ev[m].t /\ lastTC' = ev[m].t
         /\ op' = [a |-> "TC", ts |-> ev[m].t]
    /\ UNCHANGED <<clock, ev>>

(* the event about to run (announced, or the first one if its time is the clock) executes at its own time *)
Exec ==
    /\ \/ about # 0
       \/ about = 0 /\ ~StepMode /\ pending # {} /\ ev[First(pending)].t = clock
    /\ LET m == IF about # 0 THEN about ELSE First(pending) IN
         /\ clock' = ev[m].t
         /\ pending' = pending \ {m}
         /\ op' = [a |-> "Exec", id |-> m, clk |-> ev[m].t]
    /\ ann' = -1 /\ about' = 0
    /\ UNCHANGED <<ev, lastTC>>

Next == \/ \E by \in {"init", "handler", "listener"}, d \in Delays, p \in Prios :
             /\ (by = "init" => clock = 0 /\ about = 0 /\ lastTC = -1)
             /\ (by = "listener" => about # 0)
             /\ Sched(by, d, p)
        \/ Announce
        \/ Exec
Spec == Init /\ [][Next]_vars

-----------------------------------------------------------------------------
ClockMonotone == [][clock' >= clock]_vars
TCMonotone == [][lastTC' >= lastTC]_vars
NothingInThePast == \A i \in pending : ev[i].t >= clock
AboutIsAnnounced == (about # 0) => (ann = ev[about].t /\ ann >= clock)
TCIsEventTime == (op.a = "TC") => (about # 0 /\ op.ts = ev[about].t)
=============================================================================
