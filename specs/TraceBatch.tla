----------------------------- MODULE TraceBatch -----------------------------
(* Batch trace validation: one TLC run validates a JSON array of traces       *)
(* recorded from the real code.  tid is chosen in Init, l walks the trace;    *)
(* register tid keeps the furthest position explained (needs -workers 1);     *)
(* the POSTCONDITION prints every trace that was not explained to its end.    *)
(* A trace module EXTENDS this, defines TraceInit/TraceNext with Consume.     *)
EXTENDS Integers, Sequences, TLC, Json, IOUtils

VARIABLES tid, l

Traces == JsonDeserialize(IOEnv.TRACE_FILE)
NT == Len(Traces)
T == Traces[tid]
Ev == T[l]
Live == l <= Len(T)
Consume == l' = l + 1 /\ tid' = tid
BatchInit == tid \in 1..NT /\ l = 1

ASSUME \A i \in 1..NT : TLCSet(i, 1)
Progress == IF l > TLCGet(tid) THEN TLCSet(tid, l) ELSE TRUE
Post == \A i \in 1..NT :
          IF TLCGet(i) = Len(Traces[i]) + 1 THEN TRUE
          ELSE PrintT(<<"REJECT", i, TLCGet(i)>>)
=============================================================================
