---------------------------- MODULE EventPayload ----------------------------
(* Event / TimedEvent constructor validation as a total function of abstract  *)
(* shapes.  TLC enumerates the whole table (one initial state per row); the   *)
(* harness executes every row on the real constructors.                       *)
EXTENDS Integers, TLC

Metas    == {"none", "declared"}         \* declared = {"a": int, "b": str, "c": float}
Contents == {"nondict_int", "nondict_none", "nondict_list",
             "exact", "exact_subclass",  \* bool where int is declared (bool IS an int)
             "str_subclass",             \* an instance of a subclass of str where str is declared
             "int_for_float", "bool_for_float", "float_for_int",   \* numbers of the wrong class: int is NOT a float
             "missing_key", "extra_key", "renamed_key", "value_none", "wrong_type",
             "empty_dict"}
Checks   == {TRUE, FALSE}
Stamps   == {"untimed", "int", "float", "str", "none"}
EvTypes  == {"eventtype", "string", "none"}   \* what is passed as event_type

IsDict(c) == c \notin {"nondict_int", "nondict_none", "nondict_list"}
Conforms(c) == c \in {"exact", "exact_subclass", "str_subclass"}

Accept(et, m, c, chk, st) ==
    /\ st \in {"untimed", "int", "float"}
    /\ et = "eventtype"
    /\ (m = "none" \/ (IsDict(c) /\ (~chk \/ Conforms(c))))

VARIABLE row
Rows == [et : EvTypes, m : Metas, c : Contents, chk : Checks, st : Stamps]
Init == \E r \in Rows : row = [r EXCEPT !.et = r.et] @@ [res |-> IF Accept(r.et, r.m, r.c, r.chk, r.st) THEN "ok" ELSE "EventError"]
Next == UNCHANGED row
Spec == Init /\ [][Next]_row
=============================================================================
