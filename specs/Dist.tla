-------------------------------- MODULE Dist --------------------------------
(* Random distributions (pydsol.core.distributions), C14.  Two parts.          *)
(*                                                                             *)
(* (1) TABLES, enumerated by TLC (one initial state per row) and executed by   *)
(*     the harness: for every class and parameter regime, whether the          *)
(*     constructor must accept, and the SUPPORT in which every draw must lie   *)
(*     for every scripted stream prefix over the alphabet of extreme uniforms. *)
(* (2) The pointer / cache state machine (DistState.tla).                      *)
EXTENDS Integers, Sequences, FiniteSets

(* alphabet of scripted uniforms: names, concretised by the harness *)
Letters == {"zero", "sub", "eps", "quarter", "half", "threeq", "one_minus"}
CONSTANT MaxPrefix

(* parameter regimes: [cls, reg] ; "valid" regimes select algorithmic branches,  *)
(* the others are regions outside the documented domain                          *)
Regimes ==
  {[cls |-> "DistBernoulli", reg |-> r] : r \in {"p0", "phalf", "p1", "p_neg", "p_gt1", "p_int"}} \cup
  {[cls |-> "DistBeta", reg |-> r] : r \in {"lt1", "eq1", "gt1", "mixed", "a1_zero", "a2_neg", "str"}} \cup
  {[cls |-> "DistBinomial", reg |-> r] : r \in {"p0", "phalf", "p1", "n_zero", "p_gt1", "n_float"}} \cup
  {[cls |-> "DistDiscreteUniform", reg |-> r] : r \in {"range", "negrange", "beyond_2p53", "lo_eq_hi", "lo_gt_hi", "float"}} \cup
  {[cls |-> "DistConstant", reg |-> r] : r \in {"float", "int", "str"}} \cup
  {[cls |-> "DistErlang", reg |-> r] : r \in {"k1", "k3", "k12", "scale_zero", "k_zero", "k_float"}} \cup
  {[cls |-> "DistExponential", reg |-> r] : r \in {"default", "tiny", "mean_zero", "mean_neg"}} \cup
  {[cls |-> "DistGamma", reg |-> r] : r \in {"lt1", "eq1", "gt1", "shape_zero", "scale_neg"}} \cup
  {[cls |-> "DistGeometric", reg |-> r] : r \in {"phalf", "psmall", "p0", "p1", "p_neg", "p_gt1"}} \cup
  {[cls |-> "DistNegBinomial", reg |-> r] : r \in {"phalf", "p0", "p1", "s_zero", "p_gt1"}} \cup
  {[cls |-> "DistNormal", reg |-> r] : r \in {"std", "shifted", "sigma_zero", "sigma_neg"}} \cup
  {[cls |-> "DistNormalTrunc", reg |-> r] : r \in {"two_sided", "lower_only", "upper_only", "far_tail", "lo_zero", "hi_zero", "wide_ratio", "hi_le_lo", "sigma_zero", "negligible"}} \cup
  {[cls |-> "DistLogNormal", reg |-> r] : r \in {"std", "shifted", "sigma_zero"}} \cup
  {[cls |-> "DistPearson5", reg |-> r] : r \in {"lt1", "gt1", "alpha_zero", "beta_neg"}} \cup
  {[cls |-> "DistPearson6", reg |-> r] : r \in {"lt1", "gt1", "mixed", "alpha1_zero", "beta_zero"}} \cup
  {[cls |-> "DistPoisson", reg |-> r] : r \in {"small", "large", "huge", "rate_zero"}} \cup
  {[cls |-> "DistTriangular", reg |-> r] : r \in {"inside", "mode_lo", "mode_hi", "mode_below", "mode_above", "lo_eq_hi"}} \cup
  {[cls |-> "DistUniform", reg |-> r] : r \in {"unit", "wide", "hi_le_lo"}} \cup
  {[cls |-> "DistWeibull", reg |-> r] : r \in {"lt1", "gt1", "alpha_zero", "beta_neg"}}

(* regimes inside the documented parameter domain; p = 0 for the geometric family is inside the  *)
(* documented domain although no distribution exists there: rejection or a usable object both OK *)
Invalid == {"p_neg", "p_gt1", "p_int", "a1_zero", "a2_neg", "str", "n_zero", "n_float", "lo_eq_hi", "lo_gt_hi", "scale_zero", "k_zero",
            "k_float", "mean_zero", "mean_neg", "shape_zero", "scale_neg", "s_zero", "sigma_zero", "sigma_neg", "hi_le_lo", "negligible",
            "alpha_zero", "beta_neg", "alpha1_zero", "beta_zero", "rate_zero", "mode_below", "mode_above"}
Either == {[cls |-> "DistGeometric", reg |-> "p0"], [cls |-> "DistNegBinomial", reg |-> "p0"],
           [cls |-> "DistDiscreteUniform", reg |-> "float"], [cls |-> "DistConstant", reg |-> "str"]}
Construct(r) == IF r \in Either /\ r.reg \in {"p0"} THEN "either"
                ELSE IF r.reg \in Invalid \/ (r.cls = "DistDiscreteUniform" /\ r.reg = "float") \/ (r.cls = "DistConstant" /\ r.reg = "str")
                THEN "reject" ELSE "accept"

(* support classes *)
Support(cls) ==
    CASE cls \in {"DistExponential", "DistGamma", "DistErlang", "DistWeibull", "DistPearson5", "DistPearson6", "DistLogNormal"} -> "nonneg_finite"
      [] cls \in {"DistUniform", "DistTriangular", "DistNormalTrunc"} -> "within_lo_hi"
      [] cls = "DistBeta" -> "unit_interval"
      [] cls = "DistNormal" -> "finite"
      [] cls = "DistConstant" -> "the_constant"
      [] cls \in {"DistBernoulli"} -> "int_0_1"
      [] cls = "DistBinomial" -> "int_0_n"
      [] cls = "DistDiscreteUniform" -> "int_lo_hi"
      [] OTHER -> "int_nonneg"

Prefixes == UNION {[1..k -> Letters] : k \in 0..MaxPrefix}

VARIABLE row
Init == \/ \E r \in Regimes : row = [t |-> "construct", cls |-> r.cls, reg |-> r.reg, want |-> Construct(r), prefix |-> <<>>, support |-> Support(r.cls)]
        \/ \E r \in Regimes, p \in Prefixes :
              /\ Construct(r) = "accept"
              /\ row = [t |-> "draw", cls |-> r.cls, reg |-> r.reg, want |-> "in_support", prefix |-> p, support |-> Support(r.cls)]
Next == UNCHANGED row
Spec == Init /\ [][Next]_row
=============================================================================
