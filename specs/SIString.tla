------------------------------ MODULE SIString ------------------------------
(* SI unit strings (C16): the printer SI.siunit(div, hat, dot) as the          *)
(* documented grammar, and the parser SI.str_to_sisig transcribed as the       *)
(* code's left-to-right scanner (fixed unit order, 'm' versus 'mol' look-      *)
(* ahead, optional '^', optional '-', ONE digit, optional '.', one '/').       *)
(* Strings are sequences of one-character strings.  TLC checks                 *)
(* Parse(Spell(sig, f)) = sig for every bounded signature in all 8 formats.    *)
EXTENDS Integers, Sequences, FiniteSets

CONSTANTS MaxExp, MaxNonZero

UnitChars == << <<"r","a","d">>, <<"s","r">>, <<"k","g">>, <<"m">>, <<"s">>, <<"A">>, <<"K">>,
                <<"m","o","l">>, <<"c","d">> >>
Mol == <<"m","o","l">>
DigitChar(n) == CASE n = 0 -> "0" [] n = 1 -> "1" [] n = 2 -> "2" [] n = 3 -> "3" [] n = 4 -> "4"
                  [] n = 5 -> "5" [] n = 6 -> "6" [] n = 7 -> "7" [] n = 8 -> "8" [] n = 9 -> "9"
Digits == {"0","1","2","3","4","5","6","7","8","9"}
DigitVal(c) == CHOOSE n \in 0..9 : DigitChar(n) = c

Formats == [div : BOOLEAN, hat : BOOLEAN, dot : BOOLEAN]

(* ---- printer ---- *)
Num(v) == IF v < 0 THEN <<"-", DigitChar(-v)>> ELSE <<DigitChar(v)>>
RECURSIVE Upper(_, _, _, _)    \* numerator part, units i..9
Upper(sig, f, i, acc) ==
    IF i > 9 THEN acc
    ELSE LET v == sig[i] IN
         IF v > 0 \/ (v < 0 /\ ~f.div)
         THEN Upper(sig, f, i + 1,
                    acc \o (IF acc # <<>> /\ f.dot THEN <<".">> ELSE <<>>) \o UnitChars[i]
                        \o (IF v > 1 \/ v < 0 THEN (IF f.hat THEN <<"^">> ELSE <<>>) \o Num(v) ELSE <<>>))
         ELSE Upper(sig, f, i + 1, acc)
RECURSIVE Lower(_, _, _, _)    \* denominator part
Lower(sig, f, i, acc) ==
    IF i > 9 THEN acc
    ELSE LET v == sig[i] IN
         IF v < 0
         THEN Lower(sig, f, i + 1,
                    acc \o (IF acc # <<>> /\ f.dot THEN <<".">> ELSE <<>>) \o UnitChars[i]
                        \o (IF v < -1 THEN (IF f.hat THEN <<"^">> ELSE <<>>) \o Num(-v) ELSE <<>>))
         ELSE Lower(sig, f, i + 1, acc)
Spell(sig, f) == LET s == Upper(sig, f, 1, <<>>)
                     t == IF f.div THEN Lower(sig, f, 1, <<>>) ELSE <<>>
                 IN IF t # <<>> THEN s \o <<"/">> \o t ELSE s

(* ---- parser (the code's scanner) ---- *)
StartsWith(s, p) == Len(s) >= Len(p) /\ SubSeq(s, 1, Len(p)) = p
Drop(s, n) == SubSeq(s, n + 1, Len(s))
HeadIs(s, c) == s # <<>> /\ s[1] = c
Err == [ok |-> FALSE, sig |-> <<>>]

RECURSIVE Scan(_, _, _, _)
Scan(s, div, i, ret) ==          \* i is the code's loop index + 1
    IF i > 9 THEN (IF s = <<>> THEN [ok |-> TRUE, sig |-> ret] ELSE Err)
    ELSE
      LET u == UnitChars[i] IN
      IF StartsWith(s, u) /\ i = 4 /\ StartsWith(s, Mol) THEN Scan(s, div, i + 1, ret)
      ELSE
        LET matched == StartsWith(s, u)
            s1 == IF matched THEN Drop(s, Len(u)) ELSE s
            s2 == IF matched /\ HeadIs(s1, "^") THEN Drop(s1, 1) ELSE s1
            neg == matched /\ HeadIs(s2, "-")
            s3 == IF neg THEN Drop(s2, 1) ELSE s2
            hasd == matched /\ s3 # <<>> /\ s3[1] \in Digits
            exp == IF hasd THEN div * (IF neg THEN -DigitVal(s3[1]) ELSE DigitVal(s3[1])) ELSE div
            s4 == IF hasd THEN Drop(s3, 1) ELSE s3
            s5 == IF matched /\ HeadIs(s4, ".") THEN Drop(s4, 1) ELSE s4
            ret2 == IF matched THEN [ret EXCEPT ![i] = exp] ELSE ret
        IN IF matched /\ neg /\ ~hasd THEN Err                 \* isolated '-'
           ELSE IF matched /\ ret[i] # 0 THEN Err               \* unit used twice
           ELSE IF HeadIs(s5, "/")
                THEN (IF div = -1 THEN Err ELSE Scan(Drop(s5, 1), -1, 1, ret2))
                ELSE Scan(s5, div, i + 1, ret2)
Parse(s) == Scan(s, 1, 1, [k \in 1..9 |-> 0])

(* ---- bounded signatures ---- *)
Exps == (0 - MaxExp)..MaxExp
VARIABLE row
Init == \E pos \in SUBSET (1..9) :
          /\ Cardinality(pos) <= MaxNonZero
          /\ \E vals \in [pos -> Exps \ {0}] :
               LET sig == [i \in 1..9 |-> IF i \in pos THEN vals[i] ELSE 0] IN
               row = [sig |-> sig, sp |-> [f \in Formats |-> Spell(sig, f)]]
Next == UNCHANGED row
Spec == Init /\ [][Next]_row

RoundTrip == \A f \in Formats : LET r == Parse(row.sp[f]) IN r.ok /\ r.sig = row.sig
(* documented refusals of the grammar *)
Refusals == /\ ~Parse(<<"m", "/", "s", "/", "s">>).ok          \* two '/'
            /\ ~Parse(<<"m", "-">>).ok                         \* isolated '-'
            /\ ~Parse(<<"m", "2", "m">>).ok                    \* unit used twice
            /\ ~Parse(<<"x">>).ok                              \* unparsable
            /\ Parse(<<"m","o","l">>).sig = [k \in 1..9 |-> IF k = 8 THEN 1 ELSE 0]
            /\ Parse(<<"m","m","o","l">>).sig = [k \in 1..9 |-> IF k \in {4, 8} THEN 1 ELSE 0]
=============================================================================
