--------------------------- MODULE TraceSimThreads ---------------------------
(* C->S for the thread level: access logs recorded from the REAL caller and   *)
(* run threads under the interposition scheduler (random schedules) must be   *)
(* behaviours of SimThreads.tla: every announced access (thread, kind,        *)
(* variable, value) is the `last` of some enabled specification step.         *)
EXTENDS TraceBatch
CONSTANTS Script, NEvents, Faulty, Stoppers, Cleaners, OnStart, OnStop, Fixes, AnyTimeout
VARIABLES rs, rep, runflag, fin, flag, next, cur, endsOK, res, startsOK, segments, lateStop, staleStart, lateEnd, staleEnd, earlyStop, selfStart, selfCleanup, pendingStart, cleaned, usedStart, usedStop, hret, wrote, afterStop, ctimedout, wtimedout, last, pc, i, ok
ST == INSTANCE SimThreads
stvars == <<rs, rep, runflag, fin, flag, next, cur, endsOK, res, startsOK, segments, lateStop, staleStart, lateEnd, staleEnd, earlyStop, selfStart, selfCleanup, pendingStart, cleaned, usedStart, usedStop, hret, wrote, afterStop, ctimedout, wtimedout, last, pc, i, ok>>
TraceInit == BatchInit /\ ST!Init
Step == /\ Live /\ Consume /\ ST!Next
        /\ last'.t = Ev.t /\ last'.k = Ev.k /\ last'.v = Ev.v /\ last'.x = Ev.x
TraceSpec == TraceInit /\ [][Step]_<<tid, l, stvars>>
InvNoStuckStateK == ST!NoStuckStateK
InvStartEffectiveK == ST!StartEffectiveK
InvNoSpuriousSegment == ST!NoSpuriousSegment
InvCleanupFinalK == ST!CleanupFinalK
InvEndedFinalK == ST!EndedFinalK
InvThreadGoneK == ST!ThreadGoneK
InvRefused == ST!RefusedWroteNothing
InvStopEffectiveK == ST!StopEffectiveK
InvEndRepEffectiveK == ST!EndRepEffectiveK
=============================================================================
