SPECIFICATION TraceSpec
CONSTANTS
  Types = {"T1", "T2", "T3"}
  Listeners = {1, 2, 3, 4, 5}
  MaxDepth = 1000
  MaxFires = 100000
  MaxReact = 1000
  Stamps = {}
CONSTRAINT Progress
POSTCONDITION Post
INVARIANT InvExactlySnapshot
INVARIANT InvNoDup
CHECK_DEADLOCK FALSE
