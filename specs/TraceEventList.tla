--------------------------- MODULE TraceEventList ---------------------------
(* C->S for C01: recorded histories of the real EventListHeap (ids = creation *)
(* rank, times = integer 4*t) must be behaviours of EventList.tla, with every *)
(* logged result equal to what the specification computes.                    *)
EXTENDS TraceBatch, FiniteSets

CONSTANTS MaxEv, Times, Prios
VARIABLES created, pending, op
EL == INSTANCE EventList

B(x) == IF x THEN 1 ELSE 0
SeqOf(js) == [i \in 1..Len(js) |-> js[i]]

TraceInit == BatchInit /\ EL!Init

Step ==
  /\ Live /\ Consume
  /\ LET ev == Ev IN
     \/ ev.a = "Create" /\ EL!Create(ev.t, ev.p)
     \/ ev.a = "Add" /\ EL!Add(ev.e)
     \/ ev.a = "Remove" /\ EL!Remove(ev.e) /\ op'.ret = ev.ret
     \/ ev.a = "PopFirst" /\ EL!PopFirst /\ op'.ret = ev.ret
     \/ ev.a = "PeekFirst" /\ EL!PeekFirst /\ op'.ret = ev.ret
     \/ ev.a = "Contains" /\ EL!Contains(ev.e) /\ op'.ret = ev.ret
     \/ ev.a = "Size" /\ EL!Size /\ op'.ret = ev.ret
     \/ ev.a = "IsEmpty" /\ EL!IsEmpty /\ op'.ret = ev.ret
     \/ ev.a = "Clear" /\ EL!Clear
     \/ \* harness observation: drain order of a replayed copy of the history
        /\ ev.a = "Drain" /\ SeqOf(ev.seq) = EL!Drain(pending)
        /\ UNCHANGED <<created, pending, op>>
     \/ \* harness observation: the six comparison operators on two created events
        /\ ev.a = "Cmp"
        /\ LET c == EL!Cmp(EL!Key(ev.x), EL!Key(ev.y)) IN
             /\ ev.lt = B(c < 0) /\ ev.le = B(c <= 0) /\ ev.gt = B(c > 0)
             /\ ev.ge = B(c >= 0) /\ ev.eq = B(c = 0) /\ ev.ne = B(c # 0)
        /\ UNCHANGED <<created, pending, op>>

InvDrainSorted == EL!DrainSorted
InvRemoveKeepsOrder == EL!RemoveKeepsOrder
TraceSpec == TraceInit /\ [][Step]_<<tid, l, created, pending, op>>
=============================================================================
