------------------------------- MODULE Streams -------------------------------
(* Random streams (pydsol.core.streams.MersenneTwister) as a state machine.    *)
(* A generator state is the pair <<gseed, pos>>: the seed it was last seeded    *)
(* with and the number of draws since.  The uniform delivered at a coordinate   *)
(* is an uninterpreted function U(gseed, pos): reproducibility, reset, restore  *)
(* and independence are all "equal coordinates => equal output, and an          *)
(* operation on one stream changes no other stream's coordinates".              *)
EXTENDS Integers, Sequences, FiniteSets

CONSTANTS Streams, Seeds, MaxPos, Slots,
          NoSeed    \* marker of the same type as seeds (0 in model checking, NoSeed in traces)

VARIABLES seed,    \* [Streams -> Seeds \cup {NoSeed}]   what seed() reports (NoSeed: not created)
          orig,    \* original seed
          gs,      \* [Streams -> <<gseed, pos>>]
          tok,     \* [Slots -> <<gseed, pos>> or <<NoSeed, 0>>]  saved states
          op
svars == <<seed, orig, gs, tok, op>>

Created(s) == seed[s] # NoSeed

Init == /\ seed = [s \in Streams |-> NoSeed] /\ orig = [s \in Streams |-> NoSeed]
        /\ gs = [s \in Streams |-> <<NoSeed, 0>>]
        /\ tok = [k \in Slots |-> <<NoSeed, 0>>]
        /\ op = [a |-> "Init"]

New(s, sd) == /\ ~Created(s)
              /\ seed' = [seed EXCEPT ![s] = sd] /\ orig' = [orig EXCEPT ![s] = sd]
              /\ gs' = [gs EXCEPT ![s] = <<sd, 0>>]
              /\ op' = [a |-> "New", s |-> s, sd |-> sd]
              /\ UNCHANGED tok

(* next_float / next_int / next_bool: exactly one uniform is consumed *)
Draw(s, kind) == /\ Created(s) /\ gs[s][2] < MaxPos
                 /\ gs' = [gs EXCEPT ![s] = <<@[1], @[2] + 1>>]
                 /\ op' = [a |-> "Draw", s |-> s, kind |-> kind, g |-> gs[s][1], pos |-> gs[s][2]]
                 /\ UNCHANGED <<seed, orig, tok>>

SetSeed(s, sd) == /\ Created(s)
                  /\ seed' = [seed EXCEPT ![s] = sd]
                  /\ gs' = [gs EXCEPT ![s] = <<sd, 0>>]
                  /\ op' = [a |-> "SetSeed", s |-> s, sd |-> sd]
                  /\ UNCHANGED <<orig, tok>>

Reset(s) == /\ Created(s)
            /\ gs' = [gs EXCEPT ![s] = <<seed[s], 0>>]
            /\ op' = [a |-> "Reset", s |-> s]
            /\ UNCHANGED <<seed, orig, tok>>

Save(s, k) == /\ Created(s)
              /\ tok' = [tok EXCEPT ![k] = gs[s]]
              /\ op' = [a |-> "Save", s |-> s, k |-> k]
              /\ UNCHANGED <<seed, orig, gs>>

(* restore sets the generator state only: seed() and a later reset() still refer to the current seed *)
Restore(s, k) == /\ Created(s) /\ tok[k][1] # NoSeed
                 /\ gs' = [gs EXCEPT ![s] = tok[k]]
                 /\ op' = [a |-> "Restore", s |-> s, k |-> k]
                 /\ UNCHANGED <<seed, orig, tok>>

Query(s) == /\ Created(s)
            /\ op' = [a |-> "Query", s |-> s, seed |-> seed[s], orig |-> orig[s]]
            /\ UNCHANGED <<seed, orig, gs, tok>>

NewAny == \E s \in Streams, sd \in Seeds : New(s, sd)
DrawAny == \E s \in Streams, kd \in {"float", "int", "bool"} : Draw(s, kd)
SetSeedAny == \E s \in Streams, sd \in Seeds : SetSeed(s, sd)
ResetAny == \E s \in Streams : Reset(s)
SaveAny == \E s \in Streams, k \in Slots : Save(s, k)
RestoreAny == \E s \in Streams, k \in Slots : Restore(s, k)
QueryAny == \E s \in Streams : Query(s)
Next == NewAny \/ DrawAny \/ SetSeedAny \/ ResetAny \/ SaveAny \/ RestoreAny \/ QueryAny
Spec == Init /\ [][Next]_svars

(* an operation on one stream never changes another stream *)
Independent == [][\A s \in Streams : (op'.a # "Init" /\ op'.s # s) =>
                     (gs'[s] = gs[s] /\ seed'[s] = seed[s] /\ orig'[s] = orig[s])]_svars
OrigNeverChanges == [][\A s \in Streams : Created(s) => orig'[s] = orig[s]]_svars
ResetReplays == [][op'.a = "Reset" => gs'[op'.s] = <<seed[op'.s], 0>>]_svars
TypeOK == \A s \in Streams : Created(s) => (gs[s][1] \in Seeds /\ gs[s][2] \in 0..MaxPos)
=============================================================================
