-------------------------------- MODULE DEVS --------------------------------
(* Sequential semantics of pydsol's DEVSSimulator as seen by a controller that *)
(* waits for quiescence after each command (C02 C03 C05 C06, quiescent part of *)
(* C04).  Time is an integer k (concretised by the harness as int k, float     *)
(* k/4, Duration).  Event ids are creation ranks within the replication.       *)
(*                                                                             *)
(* The model program is LAZY: the first time the event with rank i executes,   *)
(* its handler's operation list is chosen nondeterministically and recorded in *)
(* prog[i]; it is reused whenever rank i executes again (after a re-           *)
(* initialisation), so exploring all choices explores all programs, and a      *)
(* program is a (partial) function rank -> operations.  initOps is what        *)
(* construct_model schedules.                                                  *)
(*                                                                             *)
(* One run command is several steps: the command itself, notifications that    *)
(* are due (Emit), AnnounceTC / ExecNext per event, then SegmentEnd, Pause or  *)
(* a fault pause.  rs = "STARTED" means a run segment is in progress.          *)
EXTENDS Integers, Sequences, FiniteSets, EventOrder

CONSTANTS
    MaxId,       \* at most this many events per replication (warm-up included)
    EndT,        \* replication end (start is 0)
    WarmT,       \* warm-up time
    Prios,       \* priorities handlers may use
    RelDelays,   \* delays for schedule_event_rel (a negative one = illegal request)
    AbsTimes,    \* times for schedule_event_abs (one before the clock = illegal request)
    BadKinds,    \* ill-formed requests {"nan_abs", "nan_rel", "str_abs", "neg_tiny"} and commands a handler issues while the
                 \* simulator runs {"reinit", "hstart", "hrun", "hstep"} (initialize / start / run_up_to[_including] / step):
                 \* all refused, and a refused request changes nothing (result 0, no effect on events, clock, bound, states)
    MaxOps,      \* operations per handler
    Strategy,    \* initial error strategy: "continue" (log/warn and continue) or "pause" (warn and pause)
    Bounds,      \* bounds offered to run_up_to / run_up_to_including
    MaxInits,    \* number of initialize commands explored
    AllowFaults, \* BOOLEAN: may handlers raise
    StratOps,    \* subset of {0, 1}: strategies a handler may switch to (0 continue, 1 pause)
    HStopOps,    \* TRUE: handlers may call stop()
    EndRepOps,   \* BOOLEAN: a handler may call end_replication() as its last operation (run mode only)
    MaxCmds,     \* commands (accepted or refused) explored per behaviour
    Cmds         \* which commands a configuration explores (Initialize is always explored)

VARIABLES
    rs, rep,     \* run state / replication state (quiescent values; STARTED = segment running)
    clock,
    ev,          \* Seq of [t, p, kind]  kind "H" handler event, "W" the warm-up event
    pending,     \* SUBSET 1..Len(ev)
    bound, incl, \* bound of the current segment
    mode,        \* "none" | "run" | "step"
    seg,         \* events executed in the current segment
    executed,    \* history: Seq of [id, clk]
    prog,        \* [rank -> [ops, raise]] fixed lazily
    initOps,     \* Unset or the construct_model operation list
    ann,         \* a TIME_CHANGED for the next event has been fired
    due,         \* notifications that must be observed before anything else happens
    notif,       \* history of notifications of this replication: Seq of [ty, ts]
    nrep,        \* initialize commands so far
    premature,   \* end_replication was used
    ncmd,        \* commands issued so far
    strat,       \* current error strategy (a handler may change it: operation "strat")
    op           \* last action (for replay / trace binding)

vars == <<rs, rep, clock, ev, pending, bound, incl, mode, seg, executed, prog, initOps,
          ann, due, notif, nrep, premature, ncmd, strat, op>>

MaxPrio == 10
Unset == <<[k |-> "unset", a |-> 0, p |-> 0]>>
NoTs == -1
AnyTs == -2      \* a notification whose timestamp the statement does not constrain (and which is racy in the implementation)
Ids == 1..Len(ev)
Key(E, e) == [t |-> E[e].t, p |-> E[e].p, id |-> e]
MinOf(E, P) == CHOOSE a \in P : \A b \in P : b = a \/ Before(Key(E, a), Key(E, b))

-----------------------------------------------------------------------------
(* Operations a handler (or construct_model) performs *)
SchedKinds == {"now", "rel", "abs"}
OpSet(n) ==
       [k : {"now"}, a : {0}, p : Prios]
  \cup [k : {"rel"}, a : RelDelays, p : Prios]
  \cup [k : {"abs"}, a : AbsTimes, p : Prios]
  \cup [k : BadKinds, a : {0}, p : {5}]
  \cup [k : {"cancel"}, a : 1..n, p : {0}]
  \cup [k : {"strat"}, a : StratOps, p : {0}]      \* set_error_strategy: 0 = continue, 1 = pause
  \cup (IF EndRepOps THEN [k : {"endrep"}, a : {0}, p : {0}] ELSE {})
  \cup (IF HStopOps THEN [k : {"hstop"}, a : {0}, p : {0}] ELSE {})       \* the handler calls stop(): accepted, the run pauses after this event
OpSeqs(n) == UNION {[1..k -> OpSet(n)] : k \in 0..MaxOps}
NSched(ops) == Cardinality({i \in 1..Len(ops) : ops[i].k \in SchedKinds})
EndsRep(ops) == ops # <<>> /\ ops[Len(ops)].k = "endrep"
StopsRun(ops) == \E j \in 1..Len(ops) : ops[j].k = "hstop"
Handlers(n) == {h \in [ops : OpSeqs(n), raise : IF AllowFaults THEN BOOLEAN ELSE {FALSE}] :
                   /\ NSched(h.ops) <= MaxId - n
                   /\ \A j \in 1..Len(h.ops) - 1 : h.ops[j].k # "endrep"      \* end_replication() only as the last operation
                   /\ (EndsRep(h.ops) => ~h.raise /\ ~StopsRun(h.ops))}

(* effect of one operation list at clock clk on (E, P); res[i] = new id, 0 = refused, -1 = cancel *)
RECURSIVE ApplyOps(_, _, _, _)
ApplyOps(ops, clk, E, P) ==
    IF ops = <<>> THEN [ev |-> E, pend |-> P, res |-> <<>>]
    ELSE LET o == Head(ops)
             t == IF o.k = "now" THEN clk ELSE IF o.k = "rel" THEN clk + o.a ELSE o.a
             legal == o.k \in SchedKinds /\ (o.k = "rel" => o.a >= 0) /\ t >= clk
             nid == Len(E) + 1
         IN IF legal
            THEN LET r == ApplyOps(Tail(ops), clk, Append(E, [t |-> t, p |-> o.p, kind |-> "H"]), P \cup {nid})
                 IN [r EXCEPT !.res = <<nid>> \o @]
            ELSE IF o.k = "cancel"
            THEN LET r == ApplyOps(Tail(ops), clk, E, P \ {o.a}) IN [r EXCEPT !.res = <<-1>> \o @]
            ELSE LET r == ApplyOps(Tail(ops), clk, E, P) IN [r EXCEPT !.res = <<0>> \o @]

(* the error strategy in force after a handler performed ops (last "strat" operation wins) *)
RECURSIVE StratAfter(_, _)
StratAfter(ops, cur) ==
    IF ops = <<>> THEN cur
    ELSE StratAfter(Tail(ops), IF Head(ops).k = "strat"
                               THEN (IF Head(ops).a = 1 THEN "pause" ELSE "continue") ELSE cur)

Within(E, m, b, inc) == E[m].t < b \/ (E[m].t = b /\ inc)

-----------------------------------------------------------------------------
(* Reference big-step semantics: run everything up to the replication end, ignoring faults,  *)
(* as far as the program is known.  Returns the executed sequence.                           *)
RECURSIVE RefRun(_, _, _, _)
RefRun(clk, E, P, X) ==
    IF P = {} THEN X
    ELSE LET m == MinOf(E, P) IN
         IF E[m].t > EndT THEN X
         ELSE IF E[m].kind = "W" THEN RefRun(E[m].t, E, P \ {m}, Append(X, [id |-> m, clk |-> E[m].t]))
         ELSE IF m \notin DOMAIN prog THEN X
         ELSE LET r == ApplyOps(prog[m].ops, E[m].t, E, P \ {m})
              IN RefRun(E[m].t, r.ev, r.pend, Append(X, [id |-> m, clk |-> E[m].t]))

InitialEvents(iops) ==
    LET r == ApplyOps(iops, 0, <<>>, {})
        E == Append(r.ev, [t |-> WarmT, p |-> MaxPrio, kind |-> "W"])
    IN [ev |-> E, pend |-> r.pend \cup {Len(E)}]

Reference == IF initOps = Unset THEN <<>>
             ELSE LET i == InitialEvents(initOps) IN RefRun(0, i.ev, i.pend, <<>>)

-----------------------------------------------------------------------------
Init ==
    /\ rs = "NOT_INITIALIZED" /\ rep = "NOT_INITIALIZED"
    /\ clock = 0 /\ ev = <<>> /\ pending = {}
    /\ bound = 0 /\ incl = TRUE /\ mode = "none" /\ seg = 0
    /\ executed = <<>> /\ prog = <<>> /\ initOps = Unset
    /\ ann = FALSE /\ due = <<>> /\ notif = <<>> /\ nrep = 0 /\ premature = FALSE /\ ncmd = 0 /\ strat = Strategy
    /\ op = [a |-> "Init"]

Quiet == rs # "STARTED" /\ due = <<>> /\ mode = "none"
CmdOK == Quiet /\ ncmd < MaxCmds

(* a command refused with DSOLError: nothing changes, nobody is notified *)
Refuse(name, arg) ==
    /\ op' = [a |-> name, arg |-> arg, res |-> "DSOLError"]
    /\ UNCHANGED <<rs, rep, clock, ev, pending, bound, incl, mode, seg, executed, prog, initOps,
                   ann, due, notif, nrep, premature, strat>>

InitializeWith(iops) ==
    /\ CmdOK /\ ncmd' = ncmd + 1 /\ nrep < MaxInits
    /\ (initOps # Unset => iops = initOps)
    /\ LET i == InitialEvents(iops) IN
         /\ initOps' = iops
         /\ ev' = i.ev /\ pending' = i.pend
    /\ clock' = 0 /\ rs' = "INITIALIZED" /\ rep' = "INITIALIZED"
    /\ executed' = <<>> /\ notif' = <<>> /\ due' = <<>> /\ ann' = FALSE
    /\ mode' = "none" /\ seg' = 0 /\ nrep' = nrep + 1 /\ premature' = FALSE
    /\ op' = [a |-> "Initialize", arg |-> 0, res |-> "ok"]
    /\ UNCHANGED <<bound, incl, prog, strat>>

Initialize == \E iops \in IF initOps = Unset
                          THEN {s \in OpSeqs(0) : /\ NSched(s) <= MaxId - 1
                                                   /\ \A i \in 1..Len(s) : s[i].k \notin {"strat", "reinit", "endrep", "hstart", "hrun", "hstep", "hstop"}}
                          ELSE {initOps} : InitializeWith(iops)

CanStart == rs \in {"INITIALIZED", "STOPPED"} /\ rep \in {"INITIALIZED", "STARTED"} /\ clock < EndT

StartSegment(name, arg, b, inc) ==
    /\ rs' = "STARTED" /\ rep' = "STARTED" /\ mode' = "run" /\ seg' = 0
    /\ bound' = b /\ incl' = inc /\ ann' = FALSE
    /\ due' = (IF rep = "INITIALIZED" THEN <<[ty |-> "START_REPLICATION", ts |-> clock]>> ELSE <<>>)
              \o <<[ty |-> "START", ts |-> clock]>>
    /\ op' = [a |-> name, arg |-> arg, res |-> "ok"]
    /\ UNCHANGED <<clock, ev, pending, executed, prog, initOps, notif, nrep, premature, strat>>

Start == /\ CmdOK /\ ncmd' = ncmd + 1 /\ "Start" \in Cmds
         /\ IF CanStart THEN StartSegment("Start", 0, EndT, TRUE) ELSE Refuse("Start", 0)

(* bounded runs.  A bound before the clock: refused, or accepted as a segment that executes  *)
(* nothing and leaves the clock alone (the statement only forbids moving the clock back).    *)
(* A bound beyond the end: refused, or clamped to the end (then inclusive, like start).      *)
RunUpTo(b, inc) ==
    /\ CmdOK /\ ncmd' = ncmd + 1 /\ "RunUpTo" \in Cmds
    /\ LET name == IF inc THEN "RunUpToIncl" ELSE "RunUpTo" IN
       IF ~CanStart THEN Refuse(name, b)
       ELSE IF b < clock THEN Refuse(name, b) \/ StartSegment(name, b, clock, FALSE)
       ELSE IF b > EndT THEN Refuse(name, b) \/ StartSegment(name, b, EndT, TRUE)
       ELSE StartSegment(name, b, b, inc)

Step ==
    /\ CmdOK /\ ncmd' = ncmd + 1 /\ "Step" \in Cmds
    /\ IF ~CanStart THEN Refuse("Step", 0)
       ELSE /\ rs' = "STARTED" /\ rep' = "STARTED" /\ mode' = "step" /\ seg' = 0 /\ ann' = FALSE
            /\ bound' = EndT /\ incl' = TRUE
            /\ due' = (IF rep = "INITIALIZED" THEN <<[ty |-> "START_REPLICATION", ts |-> clock]>> ELSE <<>>)
                      \o <<[ty |-> "START", ts |-> clock]>>
            /\ op' = [a |-> "Step", arg |-> 0, res |-> "ok"]
            /\ UNCHANGED <<clock, ev, pending, executed, prog, initOps, notif, nrep, premature, strat>>

(* stop() at quiescence is always refused: the simulator is not running *)
Stop == CmdOK /\ ncmd' = ncmd + 1 /\ "Stop" \in Cmds /\ Refuse("Stop", 0)

(* a notification that is due is observed *)
Emit ==
    /\ due # <<>> /\ Head(due).ty # "ENDREQ"
    /\ notif' = Append(notif, Head(due)) /\ due' = Tail(due)
    /\ op' = [a |-> "Notif", ty |-> Head(due).ty, ts |-> Head(due).ts]
    /\ UNCHANGED <<rs, rep, clock, ev, pending, bound, incl, mode, seg, executed, prog, initOps,
                   ann, nrep, premature, ncmd, strat>>

Running == rs = "STARTED" /\ due = <<>>
HasNext == pending # {} /\ Within(ev, MinOf(ev, pending), bound, incl)
StepDone == mode = "step" /\ seg >= 1

(* TIME_CHANGED: required before an event whose time differs from the clock, allowed before any *)
AnnounceTC ==
    /\ Running /\ ~StepDone /\ HasNext /\ ~ann
    /\ LET m == MinOf(ev, pending) IN
       /\ notif' = Append(notif, [ty |-> "TIME_CHANGED", ts |-> ev[m].t])
       /\ op' = [a |-> "Notif", ty |-> "TIME_CHANGED", ts |-> ev[m].t]
    /\ ann' = TRUE
    /\ UNCHANGED <<rs, rep, clock, ev, pending, bound, incl, mode, seg, executed, prog, initOps,
                   due, nrep, premature, ncmd, strat>>

ExecNextWith(h) ==
    /\ Running /\ ~StepDone /\ HasNext
    /\ LET m == MinOf(ev, pending) IN
       /\ (ann \/ ev[m].t = clock)
       /\ clock' = ev[m].t
       /\ executed' = Append(executed, [id |-> m, clk |-> ev[m].t])
       /\ seg' = seg + 1 /\ ann' = FALSE
       /\ IF ev[m].kind = "W"
          THEN /\ h = [ops |-> <<>>, raise |-> FALSE]
               /\ ev' = ev /\ pending' = pending \ {m} /\ prog' = prog
               /\ due' = <<[ty |-> "WARMUP", ts |-> ev[m].t]>>
               /\ op' = [a |-> "Exec", id |-> m, clk |-> ev[m].t, kind |-> "W", ops |-> <<>>,
                         res |-> <<>>, raise |-> FALSE]
               /\ UNCHANGED <<rs, mode, strat>>
          ELSE /\ (m \in DOMAIN prog => h = prog[m])
               /\ LET r == ApplyOps(h.ops, ev[m].t, ev, pending \ {m}) IN
                  /\ prog' = IF m \in DOMAIN prog THEN prog
                             ELSE [i \in DOMAIN prog \cup {m} |-> IF i = m THEN h ELSE prog[i]]
                  /\ ev' = r.ev /\ pending' = r.pend
                  /\ op' = [a |-> "Exec", id |-> m, clk |-> ev[m].t, kind |-> "H", ops |-> h.ops,
                            res |-> r.res, raise |-> h.raise]
               /\ strat' = StratAfter(h.ops, strat)
               /\ (EndsRep(h.ops) => mode = "run")
               /\ IF ((h.raise /\ strat' = "pause") \/ StopsRun(h.ops)) /\ mode = "run"
                  THEN \* fault pause, or stop() called by the handler: the segment ends right after this event
                       /\ rs' = "STOPPED" /\ mode' = "none"
                       /\ due' = <<[ty |-> "STOP", ts |-> ev[m].t]>>
                  ELSE /\ due' = (IF EndsRep(h.ops) THEN <<[ty |-> "ENDREQ", ts |-> 0]>> ELSE <<>>)
                       /\ UNCHANGED <<rs, mode>>
    /\ UNCHANGED <<rep, bound, incl, initOps, notif, nrep, premature, ncmd>>

(* the handler called end_replication(): pending events are dropped, the clock jumps to the end, the  *)
(* run loop finds nothing to do and the replication ends (and the clock must not move back to a bound) *)
HandlerEndRep ==
    /\ due # <<>> /\ Head(due).ty = "ENDREQ"
    /\ rs' = "ENDED" /\ rep' = "ENDED" /\ mode' = "none" /\ pending' = {}
    /\ clock' = IF clock < EndT THEN EndT ELSE clock
    /\ premature' = TRUE /\ ann' = FALSE
    /\ due' = <<[ty |-> "STOP", ts |-> clock'], [ty |-> "END_REPLICATION", ts |-> clock']>>
    /\ op' = [a |-> "HandlerEndRep"]
    /\ UNCHANGED <<ev, bound, incl, seg, executed, prog, initOps, notif, nrep, ncmd, strat>>

ExecNext ==
    /\ Running /\ ~StepDone /\ HasNext
    /\ LET m == MinOf(ev, pending) IN
       \E h \in IF ev[m].kind = "W" THEN {[ops |-> <<>>, raise |-> FALSE]}
                 ELSE IF m \in DOMAIN prog THEN {prog[m]} ELSE Handlers(Len(ev)) :
          ExecNextWith(h)

(* prog is a function with a finite domain of ranks; <<>> is the empty one *)

(* the run loop finds nothing (more) to execute within the bound *)
SegmentEnd ==
    /\ Running /\ mode = "run" /\ ~HasNext
    /\ clock' = IF bound > clock THEN bound ELSE clock
    /\ IF bound >= EndT
       THEN /\ rs' = "ENDED" /\ rep' = "ENDED"
            /\ due' = <<[ty |-> "STOP", ts |-> clock'], [ty |-> "END_REPLICATION", ts |-> clock']>>
       ELSE /\ rs' = "STOPPED" /\ rep' = rep
            /\ due' = <<[ty |-> "STOP", ts |-> clock']>>
    /\ mode' = "none" /\ ann' = FALSE
    /\ premature' = (premature \/ (bound >= EndT /\ ~incl))   \* an exclusive bound at the end skips the events at the end
    /\ op' = [a |-> "SegmentEnd"]
    /\ UNCHANGED <<ev, pending, bound, incl, seg, executed, prog, initOps, notif, nrep, ncmd, strat>>

(* step(): after at most one event the caller fires STOP and the simulator is STOPPED *)
StepEnd ==
    /\ Running /\ mode = "step" /\ (StepDone \/ ~HasNext)
    /\ rs' = "STOPPED" /\ mode' = "none" /\ ann' = FALSE
    /\ due' = <<[ty |-> "STOP", ts |-> clock]>>
    /\ op' = [a |-> "StepEnd"]
    /\ UNCHANGED <<rep, clock, ev, pending, bound, incl, seg, executed, prog, initOps, notif, nrep, premature, ncmd, strat>>

(* stop() issued while a handler of this segment runs: the loop ends after that event *)
Pause ==
    /\ "Pause" \in Cmds
    /\ Running /\ mode = "run" /\ seg >= 1 /\ ~ann
    /\ rs' = "STOPPED" /\ mode' = "none"
    /\ due' = <<[ty |-> "STOP", ts |-> clock]>>
    /\ op' = [a |-> "Pause"]
    /\ UNCHANGED <<rep, clock, ev, pending, bound, incl, seg, executed, prog, initOps, ann, notif, nrep, premature, ncmd, strat>>

(* end_replication() at quiescence on an initialised, not yet ended simulator *)
EndReplicationEffect ==
    /\ rs' = "ENDED" /\ rep' = "ENDED" /\ pending' = {}
    /\ clock' = IF clock < EndT THEN EndT ELSE clock
    /\ due' = <<[ty |-> "END_REPLICATION", ts |-> AnyTs]>>    \* (stamped by the run thread while the caller moves the clock: old or new time)
    /\ premature' = TRUE
    /\ op' = [a |-> "EndReplication", arg |-> 0, res |-> "ok"]
    /\ UNCHANGED <<ev, bound, incl, mode, seg, executed, prog, initOps, ann, notif, nrep, strat>>

EndReplication ==
    /\ "EndReplication" \in Cmds
    /\ CmdOK /\ ncmd' = ncmd + 1
    /\ IF rs \notin {"INITIALIZED", "STOPPED"} THEN Refuse("EndReplication", 0)     \* nothing to end: uninitialised or already ended
       ELSE EndReplicationEffect

Cleanup ==
    /\ "Cleanup" \in Cmds
    /\ CmdOK /\ ncmd' = ncmd + 1
    /\ rs' = "NOT_INITIALIZED" /\ rep' = "NOT_INITIALIZED"
    /\ op' = [a |-> "Cleanup", arg |-> 0, res |-> "ok"]
    /\ UNCHANGED <<clock, ev, pending, bound, incl, mode, seg, executed, prog, initOps, ann, due, notif, nrep, premature, strat>>

(* a brand-new simulator object is given the same model (used by trace validation: C06 C07) *)
FreshSimulator ==
    /\ Quiet
    /\ rs' = "NOT_INITIALIZED" /\ rep' = "NOT_INITIALIZED"
    /\ clock' = 0 /\ ev' = <<>> /\ pending' = {}
    /\ bound' = 0 /\ incl' = TRUE /\ mode' = "none" /\ seg' = 0
    /\ executed' = <<>> /\ ann' = FALSE /\ due' = <<>> /\ notif' = <<>> /\ premature' = FALSE
    /\ op' = [a |-> "FreshSimulator"] /\ strat' = Strategy
    /\ UNCHANGED <<prog, initOps, nrep, ncmd>>

RunUpToAny == \E b \in Bounds, inc \in BOOLEAN : RunUpTo(b, inc)

Commands == Initialize \/ Start \/ RunUpToAny \/ Step \/ Stop
Internal == Emit \/ AnnounceTC \/ ExecNext \/ HandlerEndRep \/ SegmentEnd \/ StepEnd \/ Pause
Next == Commands \/ Internal \/ EndReplication \/ Cleanup

Spec == Init /\ [][Next]_vars

-----------------------------------------------------------------------------
(* Properties *)
IsPrefix(s, t) == Len(s) <= Len(t) /\ \A i \in 1..Len(s) : s[i] = t[i]

(* C02: exactly once *)
ExactlyOnce == \A i, j \in 1..Len(executed) : executed[i].id = executed[j].id => i = j
(* C02: handler clock = event time; clock never moves backwards within a replication *)
ClockIsEventTime == \A i \in 1..Len(executed) : executed[i].clk = ev[executed[i].id].t
ExecutedMonotone == \A i \in 1..Len(executed) - 1 : executed[i].clk <= executed[i + 1].clk
ClockMonotone == [][(op'.a # "Initialize") => clock' >= clock]_vars
(* C03: nothing beyond the replication end *)
NeverBeyondEnd == clock <= EndT /\ \A i \in 1..Len(executed) : executed[i].clk <= EndT
(* C02/C03/C05/C06: whatever the segmentation, faults and earlier replications, the executed    *)
(* sequence is the reference run's (prefix while not ended, all of it when ended)               *)
AgreesWithReference ==
    (rs # "NOT_INITIALIZED" /\ ~premature) =>
        /\ IsPrefix(executed, Reference)
        /\ (rs = "ENDED" => executed = Reference /\ clock = EndT)
(* C03: resumable unless the bound reached the end *)
Resumable == (rs = "STOPPED" /\ due = <<>>) => rep = "STARTED"
(* C02: a refused scheduling request leaves the pending events unchanged: by construction of  *)
(* ApplyOps; what the invariant states is that pending events are never in the past           *)
PendingNotInPast == \A e \in pending : ev[e].t >= clock \/ rs = "ENDED" \/ premature

(* C04: notification stream *)
NSel(ty) == SelectSeq(notif, LAMBDA n : n.ty = ty)
StartReplFirstOnce == /\ Len(NSel("START_REPLICATION")) <= 1
                      /\ (notif # <<>> /\ ~premature) => notif[1].ty = "START_REPLICATION"
StartStopAlternate ==
    LET ss == SelectSeq(notif, LAMBDA n : n.ty \in {"START", "STOP"}) IN
    \A i \in 1..Len(ss) : ss[i].ty = (IF i % 2 = 1 THEN "START" ELSE "STOP")
EndReplLastOnce ==
    /\ Len(NSel("END_REPLICATION")) <= 1
    /\ \A i \in 1..Len(notif) : notif[i].ty = "END_REPLICATION" => i = Len(notif)
    /\ (rs = "ENDED" /\ due = <<>>) => (notif # <<>> /\ notif[Len(notif)].ty = "END_REPLICATION")
WarmupOnce == /\ Len(NSel("WARMUP")) <= 1
              /\ \A i \in 1..Len(notif) : notif[i].ty = "WARMUP" => notif[i].ts = WarmT
TimeChangedMonotone ==
    LET tc == NSel("TIME_CHANGED") IN \A i \in 1..Len(tc) - 1 : tc[i].ts <= tc[i + 1].ts
EndedIsFinal == rs = "ENDED" => rep = "ENDED" /\ ~CanStart
=============================================================================
