---- MODULE MC_PubSub ----
EXTENDS PubSub, TLC
CONSTANT MaxLevel
LevelBound == TLCGet("level") <= MaxLevel
====
