SPECIFICATION TraceSpec
CONSTANTS
  MaxEv = 100000
  Times = {}
  Prios = {}
CONSTRAINT Progress
POSTCONDITION Post
INVARIANT InvDrainSorted
INVARIANT InvRemoveKeepsOrder
CHECK_DEADLOCK FALSE
