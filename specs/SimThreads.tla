----------------------------- MODULE SimThreads -----------------------------
(* Thread-level model of pydsol's Simulator (C04, overlap layer): the caller    *)
(* thread running a script of start() / stop() commands and the run thread      *)
(* (SimulatorWorkerThread.run with DEVSSimulator._run inlined).  ONE LABEL PER  *)
(* SHARED ACCESS: reads and writes of _run_state (rs), _replication_state       *)
(* (rep), _runflag, _finalized (fin) and the operations of the wake-up Event    *)
(* (set / clear / wait / woke), exactly the points that the interposition       *)
(* scheduler (harness/sched.py) announces on the real threads; spin waits are   *)
(* loops with a sleep point whose timeout is a scheduling decision.             *)
(* Fixes \subseteq {"clear_after_wait", "refuse_start_in_stopping",             *)
(* "settle_late_stopping"} selects candidate repairs; {} is the pinned tree.    *)
EXTENDS Integers, Sequences, FiniteSets, TLC

CONSTANTS Script,      \* sequence of "start" / "stop" / "endrep" (end_replication) / "cleanup"
          NEvents,     \* events on the event list (times 1..NEvents, replication end beyond)
          Faulty,      \* set of event numbers whose handler raises (WARN_AND_PAUSE)
          Stoppers,    \* set of event numbers whose handler calls stop() (a command issued on the run thread)
          Cleaners,    \* set of event numbers whose handler calls cleanup() (what the WARN_AND_END strategy does after a failure)
          OnStart,     \* "stop": a START_EVENT listener calls stop() (once), on the run thread before it writes STARTED; "none"
          OnStop,      \* "start": a STOP_EVENT listener calls start() (once), on the run thread before it writes STOPPED; "none"
          Fixes,
          AnyTimeout   \* TRUE: a spin wait may time out at any sleep; FALSE: only when the other thread cannot move

(* --algorithm SimThreads
variables rs = "INITIALIZED", rep = "INITIALIZED", runflag = FALSE, fin = FALSE, flag = FALSE,
          next = 1,             \* next event on the event list
          cur = 0,              \* event popped by the run loop (0: the list was empty)
          endsOK = 0,           \* accepted end_replication() calls
          res = <<>>,           \* results of the script's commands
          startsOK = 0, segments = 0,
          lateStop = FALSE,     \* history: the caller wrote STOPPING when the run loop could no longer see it
          staleStart = FALSE,   \* history: a start was admitted before the run thread cleared the previous wake-up
          lateEnd = FALSE,      \* history: end_replication() wrote ENDING after the run thread had already written ENDED
          staleEnd = FALSE,     \* history: end_replication() woke the run thread just before it cleared its wake-up flag
          earlyStop = FALSE,    \* history: a START_EVENT listener's stop() wrote STOPPING before the run thread wrote STARTED over it
          selfStart = FALSE,    \* history: a STOP_EVENT listener's start() was admitted on the run thread, which then clears its own wake-up
          pendingStart = FALSE, \* an accepted start() has written STARTING and the run thread has not yet acted on it
          cleaned = FALSE,      \* cleanup() has written NOT_INITIALIZED
          selfCleanup = FALSE,  \* history: cleanup() ran on the run thread, which afterwards writes STOPPED over NOT_INITIALIZED
          usedStart = FALSE, usedStop = FALSE,   \* the listeners act once
          hret = "R1a",         \* where stop() on the run thread returns to: the run loop (handler) or W5 (START_EVENT listener)
          wrote = FALSE,        \* the command in progress has written shared state
          afterStop = -1,       \* events executed since an accepted stop() wrote STOPPING (-1: no stop in force)
          ctimedout = FALSE, wtimedout = FALSE,   \* the caller's / the run thread's current spin wait has reached its one-second limit (see DESIGN 9.4: independent)
          last = [t |-> "-", k |-> "-", v |-> "-", x |-> "-"];   \* the access just performed (binding)

define
  InRunLoop(p) == p \in {"R0", "R1a", "R1b", "R_body", "R_fault", "R_end1", "R_end2", "J1", "J2f", "J2s", "J3", "J4", "J5", "J6"} \/ (p \in {"H1a", "H1b", "H3", "H4f", "H4s"} /\ hret = "R1a")
  PostRun(p) == p \in {"W7", "W8", "W9a", "W9b", "W9c", "W_clear", "W_loop", "W_wait", "L1a", "L1b", "L2", "L3a", "L3b", "L5", "L6a", "L6b", "L8", "L9r", "L9s", "L10"}
  WBlocked == pc["w"] = "W_woke" /\ ~flag
  WDone == pc["w"] = "Done"
end define;

macro Acc(t, k, v, x) begin last := [t |-> t, k |-> k, v |-> v, x |-> x]; end macro;
macro AccB(t, k, v, b) begin last := [t |-> t, k |-> k, v |-> v, x |-> IF b THEN "True" ELSE "False"]; end macro;
macro AccN(t, k, v, n) begin last := [t |-> t, k |-> k, v |-> v, x |-> ToString(n)]; end macro;

fair process worker = "w"
begin
W_woke:   \* blocked in Event.wait() until the flag is set
  await flag;
  Acc("w", "ev", "woke", "-");
  if "clear_after_wait" \in Fixes then goto W_clear0; else goto W2; end if;
W_clear0:
  flag := FALSE; Acc("w", "ev", "clear", "-");
W2:
  AccB("w", "R", "fin", fin);
  if fin then
    if "clear_after_wait" \in Fixes then goto W_loop; else goto W_clear; end if;
  end if;
W3:
  Acc("w", "R", "rep", rep);
  if rep = "ENDING" then goto W8;
  elsif OnStart = "stop" /\ ~usedStart then usedStart := TRUE; hret := "W5"; goto H1a;   \* fire START_EVENT: the listener calls stop()
  end if;
W5:
  rs := "STARTED"; Acc("w", "W", "rs", "STARTED");
R0:
  runflag := TRUE; segments := segments + 1; pendingStart := FALSE; AccB("w", "W", "runflag", TRUE);
R1a:      \* while not self.is_stopping_or_stopped(): run_state == STARTING ?
  Acc("w", "R", "rs", rs);
  if rs = "STARTING" then      \* (the loop body follows at once: empty test and pop_first are not announced)
    pendingStart := FALSE;     \* a start() admitted while the loop was still running keeps it running
    if next <= NEvents then cur := next; next := next + 1; else cur := 0; end if;
    goto R_body;
  end if;
R1b:      \* run_state == STARTED ?
  Acc("w", "R", "rs", rs);
  if rs # "STARTED" then
    if OnStop = "start" /\ ~usedStop then usedStop := TRUE; goto L1a; else goto W7; end if;   \* fire STOP_EVENT: the listener calls start()
  elsif next <= NEvents then cur := next; next := next + 1;
  else cur := 0; end if;
R_body:
  if cur # 0 then
    AccN("w", "exec", "event", cur);
    afterStop := IF afterStop >= 0 THEN afterStop + 1 ELSE afterStop;
    if cur \in Faulty then goto R_fault;
    elsif cur \in Stoppers then goto H1a;
    elsif cur \in Cleaners then goto J1;
    else goto R1a; end if;
  else    \* nothing left within the bound (= the replication end): ENDING, STOPPING, return
    rep := "ENDING"; Acc("w", "W", "rep", "ENDING");
    goto R_end2;
  end if;
H1a:      \* the handler calls stop(): is_stopping_or_stopped() ...
  Acc("w", "R", "rs", rs);
  if rs = "STARTING" then goto H3; end if;
H1b:
  Acc("w", "R", "rs", rs);
  if rs # "STARTED" then
    if hret = "W5" then hret := "R1a"; goto W5;     \* refused inside the listener (which swallows the DSOLError)
    else goto R_fault; end if;                      \* refused inside the handler: the DSOLError makes the handler fail (pause strategy)
  end if;
H3:
  earlyStop := earlyStop \/ hret = "W5";
  rs := "STOPPING"; wtimedout := FALSE; afterStop := 0; Acc("w", "W", "rs", "STOPPING");
H4f:      \* _stop_impl waits for the run thread to be parked: the run thread waits for itself until a second has passed
  AccB("w", "R", "fin", fin);
  if wtimedout then
    if hret = "W5" then hret := "R1a"; goto W5; else goto R1a; end if;
  end if;
H4s:
  either
    Acc("w", "sleep", "-", "-");
  or
    wtimedout := TRUE; Acc("w", "sleep", "timeout", "-");
  end either;
  goto H4f;
J1:       \* the handler calls cleanup(): _stop_impl() ...
  selfCleanup := TRUE;
  rs := "STOPPING"; wtimedout := FALSE; afterStop := 0; pendingStart := FALSE; Acc("w", "W", "rs", "STOPPING");
J2f:      \* ... waits for the run thread (itself) until a second has passed
  AccB("w", "R", "fin", fin);
  if fin \/ wtimedout then goto J3; end if;
J2s:
  either
    Acc("w", "sleep", "-", "-");
  or
    wtimedout := TRUE; Acc("w", "sleep", "timeout", "-");
  end either;
  goto J2f;
J3:       \* worker.cleanup()
  fin := TRUE; AccB("w", "W", "fin", TRUE);
J4:
  flag := TRUE; Acc("w", "ev", "set", "-");
J5:
  rs := "NOT_INITIALIZED"; afterStop := -1; Acc("w", "W", "rs", "NOT_INITIALIZED");
J6:
  rep := "NOT_INITIALIZED"; cleaned := TRUE; Acc("w", "W", "rep", "NOT_INITIALIZED");
  goto R1a;
R_fault:  \* WARN_AND_PAUSE: self._run_state = STOPPING
  rs := "STOPPING"; Acc("w", "W", "rs", "STOPPING");
  goto R1a;
R_end2:
  rs := "STOPPING"; Acc("w", "W", "rs", "STOPPING");
  if OnStop = "start" /\ ~usedStop then usedStop := TRUE; goto L1a; else goto W7; end if;
L1a:      \* the STOP_EVENT listener calls start() on the run thread: is_starting_or_running() ...
  Acc("w", "R", "rs", rs);
  if rs = "STARTING" then goto W7; end if;        \* refused (the listener swallows the DSOLError)
L1b:
  Acc("w", "R", "rs", rs);
  if rs = "STARTED" then goto W7; end if;
L2:
  Acc("w", "R", "rs", rs);
  if rs = "NOT_INITIALIZED" then goto W7; end if;
L3a:
  Acc("w", "R", "rep", rep);
  if rep = "INITIALIZED" then goto L5; end if;
L3b:
  Acc("w", "R", "rep", rep);
  if rep # "STARTED" then goto W7; end if;        \* after the natural end (ENDING) the start is refused
L5:
  selfStart := TRUE;
  rs := "STARTING"; afterStop := -1; pendingStart := TRUE; Acc("w", "W", "rs", "STARTING");
L6a:
  Acc("w", "R", "rep", rep);
  if rep # "INITIALIZED" then goto L8; end if;
L6b:
  rep := "STARTED"; Acc("w", "W", "rep", "STARTED");
L8:
  flag := TRUE; wtimedout := FALSE; Acc("w", "ev", "set", "-");
L9r:
  AccB("w", "R", "runflag", runflag);
  if runflag \/ wtimedout then goto L10; end if;
L9s:      \* the run thread waits for its own run loop: only the clock ends this
  either
    Acc("w", "sleep", "-", "-");
  or
    wtimedout := TRUE; Acc("w", "sleep", "timeout", "-");
  end either;
  goto L9r;
L10:
  runflag := FALSE; startsOK := startsOK + 1; AccB("w", "W", "runflag", FALSE);
W7:
  rs := "STOPPED"; afterStop := -1; Acc("w", "W", "rs", "STOPPED");
W8:
  Acc("w", "R", "rep", rep);
  if rep # "ENDING" then
    if "clear_after_wait" \in Fixes then goto W_loop; else goto W_clear; end if;
  end if;
W9a:
  rep := "ENDED"; pendingStart := FALSE; Acc("w", "W", "rep", "ENDED");    \* (the end of the replication supersedes a start)
W9b:
  rs := "ENDED"; Acc("w", "W", "rs", "ENDED");
W9c:
  fin := TRUE; AccB("w", "W", "fin", TRUE);
  if "clear_after_wait" \in Fixes then goto W_loop; end if;
W_clear:
  flag := FALSE; Acc("w", "ev", "clear", "-");
W_loop:   \* while not self._finalized
  AccB("w", "R", "fin", fin);
  if fin then goto Done; end if;
W_wait:   \* Event.wait() announced
  Acc("w", "ev", "wait", "-");
  goto W_woke;
end process;

process caller = "c"
variables i = 1, ok = TRUE;
begin
C_next:
  wrote := FALSE; ok := TRUE;
  Acc("c", "cmd", Script[i], "-");
  if Script[i] = "start" then goto S1a; elsif Script[i] = "stop" then goto P1a; elsif Script[i] = "endrep" then goto E1; else goto K1; end if;
S1a:    \* is_starting_or_running(): == STARTING ?
  Acc("c", "R", "rs", rs);
  if rs = "STARTING" then ok := FALSE; goto C_ret; end if;
S1b:
  Acc("c", "R", "rs", rs);
  if rs = "STARTED" then ok := FALSE; goto C_ret; end if;
S2:     \* is_initialized()
  Acc("c", "R", "rs", rs);
  if rs = "NOT_INITIALIZED" then ok := FALSE; goto C_ret;
  elsif "refuse_start_in_stopping" \in Fixes then goto S2x;
  else goto S3a; end if;
S2x:    \* candidate repair: a simulator that is still stopping cannot be started
  Acc("c", "R", "rs", rs);
  if rs = "STOPPING" then ok := FALSE; goto C_ret; end if;
S3a:    \* replication state INITIALIZED ?
  Acc("c", "R", "rep", rep);
  if rep = "INITIALIZED" then goto S5; end if;
S3b:    \* ... or STARTED ?
  Acc("c", "R", "rep", rep);
  if rep # "STARTED" then ok := FALSE; goto C_ret; end if;
S5:
  staleStart := staleStart \/ PostRun(pc["w"]) \/ pc["w"] = "R1b";   \* the run loop has decided (or is deciding: between its two reads) to leave
  rs := "STARTING"; wrote := TRUE; afterStop := -1; pendingStart := TRUE; Acc("c", "W", "rs", "STARTING");
S6a:
  Acc("c", "R", "rep", rep);
  if rep # "INITIALIZED" then goto S8; end if;
S6b:
  rep := "STARTED"; Acc("c", "W", "rep", "STARTED");
S8:
  flag := TRUE; ctimedout := FALSE; Acc("c", "ev", "set", "-");
S9r:    \* while not self._runflag and elapsed < 1000
  AccB("c", "R", "runflag", runflag);
  if runflag \/ ctimedout then goto S10; end if;
S9s:
  either
    Acc("c", "sleep", "-", "-");
  or
    await AnyTimeout \/ WBlocked \/ WDone;
    ctimedout := TRUE; Acc("c", "sleep", "timeout", "-");
  end either;
  goto S9r;
S10:
  runflag := FALSE; startsOK := startsOK + 1; AccB("c", "W", "runflag", FALSE);
  goto C_ret;
P1a:    \* is_stopping_or_stopped() = not is_starting_or_running()
  Acc("c", "R", "rs", rs);
  if rs = "STARTING" then goto P3; end if;
P1b:
  Acc("c", "R", "rs", rs);
  if rs # "STARTED" then ok := FALSE; goto C_ret; end if;
P3:     \* the write; then "while not worker.is_waiting() ..." looks at the waiters without an announcement
  lateStop := lateStop \/ ~InRunLoop(pc["w"]) \/ pc["w"] = "R_end2";
  rs := "STOPPING"; wrote := TRUE; ctimedout := FALSE; afterStop := 0; pendingStart := FALSE; Acc("c", "W", "rs", "STOPPING");
  if WBlocked then if "settle_late_stopping" \in Fixes then goto P5a; else goto C_ret; end if; else goto P4f; end if;
P4f:    \* ... and not worker.is_finalized()
  AccB("c", "R", "fin", fin);
  if fin \/ ctimedout then if "settle_late_stopping" \in Fixes then goto P5a; else goto C_ret; end if; end if;
P4s:
  either
    Acc("c", "sleep", "-", "-");
    if WBlocked then if "settle_late_stopping" \in Fixes then goto P5a; else goto C_ret; end if; else goto P4f; end if;
  or
    await AnyTimeout \/ WDone \/ WBlocked;   \* (when the run thread is parked the loop ends anyway)
    ctimedout := TRUE; Acc("c", "sleep", "timeout", "-");
    if WBlocked then if "settle_late_stopping" \in Fixes then goto P5a; else goto C_ret; end if; else goto P4f; end if;
  end either;
P5a:    \* candidate repair: the caller settles its own late STOPPING once the run thread is parked or gone
  Acc("c", "R", "rs", rs);
  if rs # "STOPPING" then goto C_ret; end if;
P5b:
  Acc("c", "R", "rep", rep);
  if rep = "ENDED" then goto P5c; else goto P5d; end if;
P5c:
  rs := "ENDED"; Acc("c", "W", "rs", "ENDED"); goto C_ret;
P5d:
  rs := "STOPPED"; Acc("c", "W", "rs", "STOPPED");
E1:     \* end_replication(): is_initialized()
  Acc("c", "R", "rs", rs);
  if rs = "NOT_INITIALIZED" then ok := FALSE; goto C_ret; end if;
E2:     \* ... and the replication has not ended yet
  Acc("c", "R", "rep", rep);
  if rep = "ENDED" then ok := FALSE; goto C_ret; end if;
E3:
  lateEnd := lateEnd \/ rep = "ENDED";
  rep := "ENDING"; wrote := TRUE; Acc("c", "W", "rep", "ENDING");
E4:     \* wake the run thread; then the clock is set to the end and the event list is cleared (not announced)
  staleEnd := staleEnd \/ pc["w"] = "W_clear";
  flag := TRUE; next := NEvents + 1; endsOK := endsOK + 1; Acc("c", "ev", "set", "-");
  goto C_ret;
K1:     \* cleanup(): _stop_impl() without a precondition: STOPPING, then wait until the run thread is parked or finalized
  rs := "STOPPING"; wrote := TRUE; ctimedout := FALSE; afterStop := 0; pendingStart := FALSE; Acc("c", "W", "rs", "STOPPING");
  if WBlocked then goto K3; else goto K2f; end if;
K2f:
  AccB("c", "R", "fin", fin);
  if fin \/ ctimedout then goto K3; end if;
K2s:
  either
    Acc("c", "sleep", "-", "-");
    if WBlocked then goto K3; else goto K2f; end if;
  or
    await AnyTimeout \/ WDone \/ WBlocked;
    ctimedout := TRUE; Acc("c", "sleep", "timeout", "-");
    if WBlocked then goto K3; else goto K2f; end if;
  end either;
K3:     \* worker.cleanup(): _finalized = True ...
  fin := TRUE; AccB("c", "W", "fin", TRUE);
K4:     \* ... and wake it up so that it leaves its loop
  flag := TRUE; Acc("c", "ev", "set", "-");
K5:
  rs := "NOT_INITIALIZED"; afterStop := -1; Acc("c", "W", "rs", "NOT_INITIALIZED");
K6:
  rep := "NOT_INITIALIZED"; cleaned := TRUE; Acc("c", "W", "rep", "NOT_INITIALIZED");
C_ret:
  res := Append(res, IF ok THEN "ok" ELSE "DSOLError");
  Acc("c", "ret", Script[i], IF ok THEN "ok" ELSE "DSOLError");
  i := i + 1;
  if i > Len(Script) then goto Done; else goto C_next; end if;
end process;
end algorithm; *)
\* BEGIN TRANSLATION
VARIABLES pc, rs, rep, runflag, fin, flag, next, cur, endsOK, res, startsOK, 
          segments, lateStop, staleStart, lateEnd, staleEnd, earlyStop, 
          selfStart, pendingStart, cleaned, selfCleanup, usedStart, usedStop, 
          hret, wrote, afterStop, ctimedout, wtimedout, last

(* define statement *)
InRunLoop(p) == p \in {"R0", "R1a", "R1b", "R_body", "R_fault", "R_end1", "R_end2", "J1", "J2f", "J2s", "J3", "J4", "J5", "J6"} \/ (p \in {"H1a", "H1b", "H3", "H4f", "H4s"} /\ hret = "R1a")
PostRun(p) == p \in {"W7", "W8", "W9a", "W9b", "W9c", "W_clear", "W_loop", "W_wait", "L1a", "L1b", "L2", "L3a", "L3b", "L5", "L6a", "L6b", "L8", "L9r", "L9s", "L10"}
WBlocked == pc["w"] = "W_woke" /\ ~flag
WDone == pc["w"] = "Done"

VARIABLES i, ok

vars == << pc, rs, rep, runflag, fin, flag, next, cur, endsOK, res, startsOK, 
           segments, lateStop, staleStart, lateEnd, staleEnd, earlyStop, 
           selfStart, pendingStart, cleaned, selfCleanup, usedStart, usedStop, 
           hret, wrote, afterStop, ctimedout, wtimedout, last, i, ok >>

ProcSet == {"w"} \cup {"c"}

Init == (* Global variables *)
        /\ rs = "INITIALIZED"
        /\ rep = "INITIALIZED"
        /\ runflag = FALSE
        /\ fin = FALSE
        /\ flag = FALSE
        /\ next = 1
        /\ cur = 0
        /\ endsOK = 0
        /\ res = <<>>
        /\ startsOK = 0
        /\ segments = 0
        /\ lateStop = FALSE
        /\ staleStart = FALSE
        /\ lateEnd = FALSE
        /\ staleEnd = FALSE
        /\ earlyStop = FALSE
        /\ selfStart = FALSE
        /\ pendingStart = FALSE
        /\ cleaned = FALSE
        /\ selfCleanup = FALSE
        /\ usedStart = FALSE
        /\ usedStop = FALSE
        /\ hret = "R1a"
        /\ wrote = FALSE
        /\ afterStop = -1
        /\ ctimedout = FALSE
        /\ wtimedout = FALSE
        /\ last = [t |-> "-", k |-> "-", v |-> "-", x |-> "-"]
        (* Process caller *)
        /\ i = 1
        /\ ok = TRUE
        /\ pc = [self \in ProcSet |-> CASE self = "w" -> "W_woke"
                                        [] self = "c" -> "C_next"]

W_woke == /\ pc["w"] = "W_woke"
          /\ flag
          /\ last' = [t |-> "w", k |-> "ev", v |-> "woke", x |-> "-"]
          /\ IF "clear_after_wait" \in Fixes
                THEN /\ pc' = [pc EXCEPT !["w"] = "W_clear0"]
                ELSE /\ pc' = [pc EXCEPT !["w"] = "W2"]
          /\ UNCHANGED << rs, rep, runflag, fin, flag, next, cur, endsOK, res, 
                          startsOK, segments, lateStop, staleStart, lateEnd, 
                          staleEnd, earlyStop, selfStart, pendingStart, 
                          cleaned, selfCleanup, usedStart, usedStop, hret, 
                          wrote, afterStop, ctimedout, wtimedout, i, ok >>

W_clear0 == /\ pc["w"] = "W_clear0"
            /\ flag' = FALSE
            /\ last' = [t |-> "w", k |-> "ev", v |-> "clear", x |-> "-"]
            /\ pc' = [pc EXCEPT !["w"] = "W2"]
            /\ UNCHANGED << rs, rep, runflag, fin, next, cur, endsOK, res, 
                            startsOK, segments, lateStop, staleStart, lateEnd, 
                            staleEnd, earlyStop, selfStart, pendingStart, 
                            cleaned, selfCleanup, usedStart, usedStop, hret, 
                            wrote, afterStop, ctimedout, wtimedout, i, ok >>

W2 == /\ pc["w"] = "W2"
      /\ last' = [t |-> "w", k |-> "R", v |-> "fin", x |-> IF fin THEN "True" ELSE "False"]
      /\ IF fin
            THEN /\ IF "clear_after_wait" \in Fixes
                       THEN /\ pc' = [pc EXCEPT !["w"] = "W_loop"]
                       ELSE /\ pc' = [pc EXCEPT !["w"] = "W_clear"]
            ELSE /\ pc' = [pc EXCEPT !["w"] = "W3"]
      /\ UNCHANGED << rs, rep, runflag, fin, flag, next, cur, endsOK, res, 
                      startsOK, segments, lateStop, staleStart, lateEnd, 
                      staleEnd, earlyStop, selfStart, pendingStart, cleaned, 
                      selfCleanup, usedStart, usedStop, hret, wrote, afterStop, 
                      ctimedout, wtimedout, i, ok >>

W3 == /\ pc["w"] = "W3"
      /\ last' = [t |-> "w", k |-> "R", v |-> "rep", x |-> rep]
      /\ IF rep = "ENDING"
            THEN /\ pc' = [pc EXCEPT !["w"] = "W8"]
                 /\ UNCHANGED << usedStart, hret >>
            ELSE /\ IF OnStart = "stop" /\ ~usedStart
                       THEN /\ usedStart' = TRUE
                            /\ hret' = "W5"
                            /\ pc' = [pc EXCEPT !["w"] = "H1a"]
                       ELSE /\ pc' = [pc EXCEPT !["w"] = "W5"]
                            /\ UNCHANGED << usedStart, hret >>
      /\ UNCHANGED << rs, rep, runflag, fin, flag, next, cur, endsOK, res, 
                      startsOK, segments, lateStop, staleStart, lateEnd, 
                      staleEnd, earlyStop, selfStart, pendingStart, cleaned, 
                      selfCleanup, usedStop, wrote, afterStop, ctimedout, 
                      wtimedout, i, ok >>

W5 == /\ pc["w"] = "W5"
      /\ rs' = "STARTED"
      /\ last' = [t |-> "w", k |-> "W", v |-> "rs", x |-> "STARTED"]
      /\ pc' = [pc EXCEPT !["w"] = "R0"]
      /\ UNCHANGED << rep, runflag, fin, flag, next, cur, endsOK, res, 
                      startsOK, segments, lateStop, staleStart, lateEnd, 
                      staleEnd, earlyStop, selfStart, pendingStart, cleaned, 
                      selfCleanup, usedStart, usedStop, hret, wrote, afterStop, 
                      ctimedout, wtimedout, i, ok >>

R0 == /\ pc["w"] = "R0"
      /\ runflag' = TRUE
      /\ segments' = segments + 1
      /\ pendingStart' = FALSE
      /\ last' = [t |-> "w", k |-> "W", v |-> "runflag", x |-> IF TRUE THEN "True" ELSE "False"]
      /\ pc' = [pc EXCEPT !["w"] = "R1a"]
      /\ UNCHANGED << rs, rep, fin, flag, next, cur, endsOK, res, startsOK, 
                      lateStop, staleStart, lateEnd, staleEnd, earlyStop, 
                      selfStart, cleaned, selfCleanup, usedStart, usedStop, 
                      hret, wrote, afterStop, ctimedout, wtimedout, i, ok >>

R1a == /\ pc["w"] = "R1a"
       /\ last' = [t |-> "w", k |-> "R", v |-> "rs", x |-> rs]
       /\ IF rs = "STARTING"
             THEN /\ pendingStart' = FALSE
                  /\ IF next <= NEvents
                        THEN /\ cur' = next
                             /\ next' = next + 1
                        ELSE /\ cur' = 0
                             /\ next' = next
                  /\ pc' = [pc EXCEPT !["w"] = "R_body"]
             ELSE /\ pc' = [pc EXCEPT !["w"] = "R1b"]
                  /\ UNCHANGED << next, cur, pendingStart >>
       /\ UNCHANGED << rs, rep, runflag, fin, flag, endsOK, res, startsOK, 
                       segments, lateStop, staleStart, lateEnd, staleEnd, 
                       earlyStop, selfStart, cleaned, selfCleanup, usedStart, 
                       usedStop, hret, wrote, afterStop, ctimedout, wtimedout, 
                       i, ok >>

R1b == /\ pc["w"] = "R1b"
       /\ last' = [t |-> "w", k |-> "R", v |-> "rs", x |-> rs]
       /\ IF rs # "STARTED"
             THEN /\ IF OnStop = "start" /\ ~usedStop
                        THEN /\ usedStop' = TRUE
                             /\ pc' = [pc EXCEPT !["w"] = "L1a"]
                        ELSE /\ pc' = [pc EXCEPT !["w"] = "W7"]
                             /\ UNCHANGED usedStop
                  /\ UNCHANGED << next, cur >>
             ELSE /\ IF next <= NEvents
                        THEN /\ cur' = next
                             /\ next' = next + 1
                        ELSE /\ cur' = 0
                             /\ next' = next
                  /\ pc' = [pc EXCEPT !["w"] = "R_body"]
                  /\ UNCHANGED usedStop
       /\ UNCHANGED << rs, rep, runflag, fin, flag, endsOK, res, startsOK, 
                       segments, lateStop, staleStart, lateEnd, staleEnd, 
                       earlyStop, selfStart, pendingStart, cleaned, 
                       selfCleanup, usedStart, hret, wrote, afterStop, 
                       ctimedout, wtimedout, i, ok >>

R_body == /\ pc["w"] = "R_body"
          /\ IF cur # 0
                THEN /\ last' = [t |-> "w", k |-> "exec", v |-> "event", x |-> ToString(cur)]
                     /\ afterStop' = (IF afterStop >= 0 THEN afterStop + 1 ELSE afterStop)
                     /\ IF cur \in Faulty
                           THEN /\ pc' = [pc EXCEPT !["w"] = "R_fault"]
                           ELSE /\ IF cur \in Stoppers
                                      THEN /\ pc' = [pc EXCEPT !["w"] = "H1a"]
                                      ELSE /\ IF cur \in Cleaners
                                                 THEN /\ pc' = [pc EXCEPT !["w"] = "J1"]
                                                 ELSE /\ pc' = [pc EXCEPT !["w"] = "R1a"]
                     /\ rep' = rep
                ELSE /\ rep' = "ENDING"
                     /\ last' = [t |-> "w", k |-> "W", v |-> "rep", x |-> "ENDING"]
                     /\ pc' = [pc EXCEPT !["w"] = "R_end2"]
                     /\ UNCHANGED afterStop
          /\ UNCHANGED << rs, runflag, fin, flag, next, cur, endsOK, res, 
                          startsOK, segments, lateStop, staleStart, lateEnd, 
                          staleEnd, earlyStop, selfStart, pendingStart, 
                          cleaned, selfCleanup, usedStart, usedStop, hret, 
                          wrote, ctimedout, wtimedout, i, ok >>

H1a == /\ pc["w"] = "H1a"
       /\ last' = [t |-> "w", k |-> "R", v |-> "rs", x |-> rs]
       /\ IF rs = "STARTING"
             THEN /\ pc' = [pc EXCEPT !["w"] = "H3"]
             ELSE /\ pc' = [pc EXCEPT !["w"] = "H1b"]
       /\ UNCHANGED << rs, rep, runflag, fin, flag, next, cur, endsOK, res, 
                       startsOK, segments, lateStop, staleStart, lateEnd, 
                       staleEnd, earlyStop, selfStart, pendingStart, cleaned, 
                       selfCleanup, usedStart, usedStop, hret, wrote, 
                       afterStop, ctimedout, wtimedout, i, ok >>

H1b == /\ pc["w"] = "H1b"
       /\ last' = [t |-> "w", k |-> "R", v |-> "rs", x |-> rs]
       /\ IF rs # "STARTED"
             THEN /\ IF hret = "W5"
                        THEN /\ hret' = "R1a"
                             /\ pc' = [pc EXCEPT !["w"] = "W5"]
                        ELSE /\ pc' = [pc EXCEPT !["w"] = "R_fault"]
                             /\ hret' = hret
             ELSE /\ pc' = [pc EXCEPT !["w"] = "H3"]
                  /\ hret' = hret
       /\ UNCHANGED << rs, rep, runflag, fin, flag, next, cur, endsOK, res, 
                       startsOK, segments, lateStop, staleStart, lateEnd, 
                       staleEnd, earlyStop, selfStart, pendingStart, cleaned, 
                       selfCleanup, usedStart, usedStop, wrote, afterStop, 
                       ctimedout, wtimedout, i, ok >>

H3 == /\ pc["w"] = "H3"
      /\ earlyStop' = (earlyStop \/ hret = "W5")
      /\ rs' = "STOPPING"
      /\ wtimedout' = FALSE
      /\ afterStop' = 0
      /\ last' = [t |-> "w", k |-> "W", v |-> "rs", x |-> "STOPPING"]
      /\ pc' = [pc EXCEPT !["w"] = "H4f"]
      /\ UNCHANGED << rep, runflag, fin, flag, next, cur, endsOK, res, 
                      startsOK, segments, lateStop, staleStart, lateEnd, 
                      staleEnd, selfStart, pendingStart, cleaned, selfCleanup, 
                      usedStart, usedStop, hret, wrote, ctimedout, i, ok >>

H4f == /\ pc["w"] = "H4f"
       /\ last' = [t |-> "w", k |-> "R", v |-> "fin", x |-> IF fin THEN "True" ELSE "False"]
       /\ IF wtimedout
             THEN /\ IF hret = "W5"
                        THEN /\ hret' = "R1a"
                             /\ pc' = [pc EXCEPT !["w"] = "W5"]
                        ELSE /\ pc' = [pc EXCEPT !["w"] = "R1a"]
                             /\ hret' = hret
             ELSE /\ pc' = [pc EXCEPT !["w"] = "H4s"]
                  /\ hret' = hret
       /\ UNCHANGED << rs, rep, runflag, fin, flag, next, cur, endsOK, res, 
                       startsOK, segments, lateStop, staleStart, lateEnd, 
                       staleEnd, earlyStop, selfStart, pendingStart, cleaned, 
                       selfCleanup, usedStart, usedStop, wrote, afterStop, 
                       ctimedout, wtimedout, i, ok >>

H4s == /\ pc["w"] = "H4s"
       /\ \/ /\ last' = [t |-> "w", k |-> "sleep", v |-> "-", x |-> "-"]
             /\ UNCHANGED wtimedout
          \/ /\ wtimedout' = TRUE
             /\ last' = [t |-> "w", k |-> "sleep", v |-> "timeout", x |-> "-"]
       /\ pc' = [pc EXCEPT !["w"] = "H4f"]
       /\ UNCHANGED << rs, rep, runflag, fin, flag, next, cur, endsOK, res, 
                       startsOK, segments, lateStop, staleStart, lateEnd, 
                       staleEnd, earlyStop, selfStart, pendingStart, cleaned, 
                       selfCleanup, usedStart, usedStop, hret, wrote, 
                       afterStop, ctimedout, i, ok >>

J1 == /\ pc["w"] = "J1"
      /\ selfCleanup' = TRUE
      /\ rs' = "STOPPING"
      /\ wtimedout' = FALSE
      /\ afterStop' = 0
      /\ pendingStart' = FALSE
      /\ last' = [t |-> "w", k |-> "W", v |-> "rs", x |-> "STOPPING"]
      /\ pc' = [pc EXCEPT !["w"] = "J2f"]
      /\ UNCHANGED << rep, runflag, fin, flag, next, cur, endsOK, res, 
                      startsOK, segments, lateStop, staleStart, lateEnd, 
                      staleEnd, earlyStop, selfStart, cleaned, usedStart, 
                      usedStop, hret, wrote, ctimedout, i, ok >>

J2f == /\ pc["w"] = "J2f"
       /\ last' = [t |-> "w", k |-> "R", v |-> "fin", x |-> IF fin THEN "True" ELSE "False"]
       /\ IF fin \/ wtimedout
             THEN /\ pc' = [pc EXCEPT !["w"] = "J3"]
             ELSE /\ pc' = [pc EXCEPT !["w"] = "J2s"]
       /\ UNCHANGED << rs, rep, runflag, fin, flag, next, cur, endsOK, res, 
                       startsOK, segments, lateStop, staleStart, lateEnd, 
                       staleEnd, earlyStop, selfStart, pendingStart, cleaned, 
                       selfCleanup, usedStart, usedStop, hret, wrote, 
                       afterStop, ctimedout, wtimedout, i, ok >>

J2s == /\ pc["w"] = "J2s"
       /\ \/ /\ last' = [t |-> "w", k |-> "sleep", v |-> "-", x |-> "-"]
             /\ UNCHANGED wtimedout
          \/ /\ wtimedout' = TRUE
             /\ last' = [t |-> "w", k |-> "sleep", v |-> "timeout", x |-> "-"]
       /\ pc' = [pc EXCEPT !["w"] = "J2f"]
       /\ UNCHANGED << rs, rep, runflag, fin, flag, next, cur, endsOK, res, 
                       startsOK, segments, lateStop, staleStart, lateEnd, 
                       staleEnd, earlyStop, selfStart, pendingStart, cleaned, 
                       selfCleanup, usedStart, usedStop, hret, wrote, 
                       afterStop, ctimedout, i, ok >>

J3 == /\ pc["w"] = "J3"
      /\ fin' = TRUE
      /\ last' = [t |-> "w", k |-> "W", v |-> "fin", x |-> IF TRUE THEN "True" ELSE "False"]
      /\ pc' = [pc EXCEPT !["w"] = "J4"]
      /\ UNCHANGED << rs, rep, runflag, flag, next, cur, endsOK, res, startsOK, 
                      segments, lateStop, staleStart, lateEnd, staleEnd, 
                      earlyStop, selfStart, pendingStart, cleaned, selfCleanup, 
                      usedStart, usedStop, hret, wrote, afterStop, ctimedout, 
                      wtimedout, i, ok >>

J4 == /\ pc["w"] = "J4"
      /\ flag' = TRUE
      /\ last' = [t |-> "w", k |-> "ev", v |-> "set", x |-> "-"]
      /\ pc' = [pc EXCEPT !["w"] = "J5"]
      /\ UNCHANGED << rs, rep, runflag, fin, next, cur, endsOK, res, startsOK, 
                      segments, lateStop, staleStart, lateEnd, staleEnd, 
                      earlyStop, selfStart, pendingStart, cleaned, selfCleanup, 
                      usedStart, usedStop, hret, wrote, afterStop, ctimedout, 
                      wtimedout, i, ok >>

J5 == /\ pc["w"] = "J5"
      /\ rs' = "NOT_INITIALIZED"
      /\ afterStop' = -1
      /\ last' = [t |-> "w", k |-> "W", v |-> "rs", x |-> "NOT_INITIALIZED"]
      /\ pc' = [pc EXCEPT !["w"] = "J6"]
      /\ UNCHANGED << rep, runflag, fin, flag, next, cur, endsOK, res, 
                      startsOK, segments, lateStop, staleStart, lateEnd, 
                      staleEnd, earlyStop, selfStart, pendingStart, cleaned, 
                      selfCleanup, usedStart, usedStop, hret, wrote, ctimedout, 
                      wtimedout, i, ok >>

J6 == /\ pc["w"] = "J6"
      /\ rep' = "NOT_INITIALIZED"
      /\ cleaned' = TRUE
      /\ last' = [t |-> "w", k |-> "W", v |-> "rep", x |-> "NOT_INITIALIZED"]
      /\ pc' = [pc EXCEPT !["w"] = "R1a"]
      /\ UNCHANGED << rs, runflag, fin, flag, next, cur, endsOK, res, startsOK, 
                      segments, lateStop, staleStart, lateEnd, staleEnd, 
                      earlyStop, selfStart, pendingStart, selfCleanup, 
                      usedStart, usedStop, hret, wrote, afterStop, ctimedout, 
                      wtimedout, i, ok >>

R_fault == /\ pc["w"] = "R_fault"
           /\ rs' = "STOPPING"
           /\ last' = [t |-> "w", k |-> "W", v |-> "rs", x |-> "STOPPING"]
           /\ pc' = [pc EXCEPT !["w"] = "R1a"]
           /\ UNCHANGED << rep, runflag, fin, flag, next, cur, endsOK, res, 
                           startsOK, segments, lateStop, staleStart, lateEnd, 
                           staleEnd, earlyStop, selfStart, pendingStart, 
                           cleaned, selfCleanup, usedStart, usedStop, hret, 
                           wrote, afterStop, ctimedout, wtimedout, i, ok >>

R_end2 == /\ pc["w"] = "R_end2"
          /\ rs' = "STOPPING"
          /\ last' = [t |-> "w", k |-> "W", v |-> "rs", x |-> "STOPPING"]
          /\ IF OnStop = "start" /\ ~usedStop
                THEN /\ usedStop' = TRUE
                     /\ pc' = [pc EXCEPT !["w"] = "L1a"]
                ELSE /\ pc' = [pc EXCEPT !["w"] = "W7"]
                     /\ UNCHANGED usedStop
          /\ UNCHANGED << rep, runflag, fin, flag, next, cur, endsOK, res, 
                          startsOK, segments, lateStop, staleStart, lateEnd, 
                          staleEnd, earlyStop, selfStart, pendingStart, 
                          cleaned, selfCleanup, usedStart, hret, wrote, 
                          afterStop, ctimedout, wtimedout, i, ok >>

L1a == /\ pc["w"] = "L1a"
       /\ last' = [t |-> "w", k |-> "R", v |-> "rs", x |-> rs]
       /\ IF rs = "STARTING"
             THEN /\ pc' = [pc EXCEPT !["w"] = "W7"]
             ELSE /\ pc' = [pc EXCEPT !["w"] = "L1b"]
       /\ UNCHANGED << rs, rep, runflag, fin, flag, next, cur, endsOK, res, 
                       startsOK, segments, lateStop, staleStart, lateEnd, 
                       staleEnd, earlyStop, selfStart, pendingStart, cleaned, 
                       selfCleanup, usedStart, usedStop, hret, wrote, 
                       afterStop, ctimedout, wtimedout, i, ok >>

L1b == /\ pc["w"] = "L1b"
       /\ last' = [t |-> "w", k |-> "R", v |-> "rs", x |-> rs]
       /\ IF rs = "STARTED"
             THEN /\ pc' = [pc EXCEPT !["w"] = "W7"]
             ELSE /\ pc' = [pc EXCEPT !["w"] = "L2"]
       /\ UNCHANGED << rs, rep, runflag, fin, flag, next, cur, endsOK, res, 
                       startsOK, segments, lateStop, staleStart, lateEnd, 
                       staleEnd, earlyStop, selfStart, pendingStart, cleaned, 
                       selfCleanup, usedStart, usedStop, hret, wrote, 
                       afterStop, ctimedout, wtimedout, i, ok >>

L2 == /\ pc["w"] = "L2"
      /\ last' = [t |-> "w", k |-> "R", v |-> "rs", x |-> rs]
      /\ IF rs = "NOT_INITIALIZED"
            THEN /\ pc' = [pc EXCEPT !["w"] = "W7"]
            ELSE /\ pc' = [pc EXCEPT !["w"] = "L3a"]
      /\ UNCHANGED << rs, rep, runflag, fin, flag, next, cur, endsOK, res, 
                      startsOK, segments, lateStop, staleStart, lateEnd, 
                      staleEnd, earlyStop, selfStart, pendingStart, cleaned, 
                      selfCleanup, usedStart, usedStop, hret, wrote, afterStop, 
                      ctimedout, wtimedout, i, ok >>

L3a == /\ pc["w"] = "L3a"
       /\ last' = [t |-> "w", k |-> "R", v |-> "rep", x |-> rep]
       /\ IF rep = "INITIALIZED"
             THEN /\ pc' = [pc EXCEPT !["w"] = "L5"]
             ELSE /\ pc' = [pc EXCEPT !["w"] = "L3b"]
       /\ UNCHANGED << rs, rep, runflag, fin, flag, next, cur, endsOK, res, 
                       startsOK, segments, lateStop, staleStart, lateEnd, 
                       staleEnd, earlyStop, selfStart, pendingStart, cleaned, 
                       selfCleanup, usedStart, usedStop, hret, wrote, 
                       afterStop, ctimedout, wtimedout, i, ok >>

L3b == /\ pc["w"] = "L3b"
       /\ last' = [t |-> "w", k |-> "R", v |-> "rep", x |-> rep]
       /\ IF rep # "STARTED"
             THEN /\ pc' = [pc EXCEPT !["w"] = "W7"]
             ELSE /\ pc' = [pc EXCEPT !["w"] = "L5"]
       /\ UNCHANGED << rs, rep, runflag, fin, flag, next, cur, endsOK, res, 
                       startsOK, segments, lateStop, staleStart, lateEnd, 
                       staleEnd, earlyStop, selfStart, pendingStart, cleaned, 
                       selfCleanup, usedStart, usedStop, hret, wrote, 
                       afterStop, ctimedout, wtimedout, i, ok >>

L5 == /\ pc["w"] = "L5"
      /\ selfStart' = TRUE
      /\ rs' = "STARTING"
      /\ afterStop' = -1
      /\ pendingStart' = TRUE
      /\ last' = [t |-> "w", k |-> "W", v |-> "rs", x |-> "STARTING"]
      /\ pc' = [pc EXCEPT !["w"] = "L6a"]
      /\ UNCHANGED << rep, runflag, fin, flag, next, cur, endsOK, res, 
                      startsOK, segments, lateStop, staleStart, lateEnd, 
                      staleEnd, earlyStop, cleaned, selfCleanup, usedStart, 
                      usedStop, hret, wrote, ctimedout, wtimedout, i, ok >>

L6a == /\ pc["w"] = "L6a"
       /\ last' = [t |-> "w", k |-> "R", v |-> "rep", x |-> rep]
       /\ IF rep # "INITIALIZED"
             THEN /\ pc' = [pc EXCEPT !["w"] = "L8"]
             ELSE /\ pc' = [pc EXCEPT !["w"] = "L6b"]
       /\ UNCHANGED << rs, rep, runflag, fin, flag, next, cur, endsOK, res, 
                       startsOK, segments, lateStop, staleStart, lateEnd, 
                       staleEnd, earlyStop, selfStart, pendingStart, cleaned, 
                       selfCleanup, usedStart, usedStop, hret, wrote, 
                       afterStop, ctimedout, wtimedout, i, ok >>

L6b == /\ pc["w"] = "L6b"
       /\ rep' = "STARTED"
       /\ last' = [t |-> "w", k |-> "W", v |-> "rep", x |-> "STARTED"]
       /\ pc' = [pc EXCEPT !["w"] = "L8"]
       /\ UNCHANGED << rs, runflag, fin, flag, next, cur, endsOK, res, 
                       startsOK, segments, lateStop, staleStart, lateEnd, 
                       staleEnd, earlyStop, selfStart, pendingStart, cleaned, 
                       selfCleanup, usedStart, usedStop, hret, wrote, 
                       afterStop, ctimedout, wtimedout, i, ok >>

L8 == /\ pc["w"] = "L8"
      /\ flag' = TRUE
      /\ wtimedout' = FALSE
      /\ last' = [t |-> "w", k |-> "ev", v |-> "set", x |-> "-"]
      /\ pc' = [pc EXCEPT !["w"] = "L9r"]
      /\ UNCHANGED << rs, rep, runflag, fin, next, cur, endsOK, res, startsOK, 
                      segments, lateStop, staleStart, lateEnd, staleEnd, 
                      earlyStop, selfStart, pendingStart, cleaned, selfCleanup, 
                      usedStart, usedStop, hret, wrote, afterStop, ctimedout, 
                      i, ok >>

L9r == /\ pc["w"] = "L9r"
       /\ last' = [t |-> "w", k |-> "R", v |-> "runflag", x |-> IF runflag THEN "True" ELSE "False"]
       /\ IF runflag \/ wtimedout
             THEN /\ pc' = [pc EXCEPT !["w"] = "L10"]
             ELSE /\ pc' = [pc EXCEPT !["w"] = "L9s"]
       /\ UNCHANGED << rs, rep, runflag, fin, flag, next, cur, endsOK, res, 
                       startsOK, segments, lateStop, staleStart, lateEnd, 
                       staleEnd, earlyStop, selfStart, pendingStart, cleaned, 
                       selfCleanup, usedStart, usedStop, hret, wrote, 
                       afterStop, ctimedout, wtimedout, i, ok >>

L9s == /\ pc["w"] = "L9s"
       /\ \/ /\ last' = [t |-> "w", k |-> "sleep", v |-> "-", x |-> "-"]
             /\ UNCHANGED wtimedout
          \/ /\ wtimedout' = TRUE
             /\ last' = [t |-> "w", k |-> "sleep", v |-> "timeout", x |-> "-"]
       /\ pc' = [pc EXCEPT !["w"] = "L9r"]
       /\ UNCHANGED << rs, rep, runflag, fin, flag, next, cur, endsOK, res, 
                       startsOK, segments, lateStop, staleStart, lateEnd, 
                       staleEnd, earlyStop, selfStart, pendingStart, cleaned, 
                       selfCleanup, usedStart, usedStop, hret, wrote, 
                       afterStop, ctimedout, i, ok >>

L10 == /\ pc["w"] = "L10"
       /\ runflag' = FALSE
       /\ startsOK' = startsOK + 1
       /\ last' = [t |-> "w", k |-> "W", v |-> "runflag", x |-> IF FALSE THEN "True" ELSE "False"]
       /\ pc' = [pc EXCEPT !["w"] = "W7"]
       /\ UNCHANGED << rs, rep, fin, flag, next, cur, endsOK, res, segments, 
                       lateStop, staleStart, lateEnd, staleEnd, earlyStop, 
                       selfStart, pendingStart, cleaned, selfCleanup, 
                       usedStart, usedStop, hret, wrote, afterStop, ctimedout, 
                       wtimedout, i, ok >>

W7 == /\ pc["w"] = "W7"
      /\ rs' = "STOPPED"
      /\ afterStop' = -1
      /\ last' = [t |-> "w", k |-> "W", v |-> "rs", x |-> "STOPPED"]
      /\ pc' = [pc EXCEPT !["w"] = "W8"]
      /\ UNCHANGED << rep, runflag, fin, flag, next, cur, endsOK, res, 
                      startsOK, segments, lateStop, staleStart, lateEnd, 
                      staleEnd, earlyStop, selfStart, pendingStart, cleaned, 
                      selfCleanup, usedStart, usedStop, hret, wrote, ctimedout, 
                      wtimedout, i, ok >>

W8 == /\ pc["w"] = "W8"
      /\ last' = [t |-> "w", k |-> "R", v |-> "rep", x |-> rep]
      /\ IF rep # "ENDING"
            THEN /\ IF "clear_after_wait" \in Fixes
                       THEN /\ pc' = [pc EXCEPT !["w"] = "W_loop"]
                       ELSE /\ pc' = [pc EXCEPT !["w"] = "W_clear"]
            ELSE /\ pc' = [pc EXCEPT !["w"] = "W9a"]
      /\ UNCHANGED << rs, rep, runflag, fin, flag, next, cur, endsOK, res, 
                      startsOK, segments, lateStop, staleStart, lateEnd, 
                      staleEnd, earlyStop, selfStart, pendingStart, cleaned, 
                      selfCleanup, usedStart, usedStop, hret, wrote, afterStop, 
                      ctimedout, wtimedout, i, ok >>

W9a == /\ pc["w"] = "W9a"
       /\ rep' = "ENDED"
       /\ pendingStart' = FALSE
       /\ last' = [t |-> "w", k |-> "W", v |-> "rep", x |-> "ENDED"]
       /\ pc' = [pc EXCEPT !["w"] = "W9b"]
       /\ UNCHANGED << rs, runflag, fin, flag, next, cur, endsOK, res, 
                       startsOK, segments, lateStop, staleStart, lateEnd, 
                       staleEnd, earlyStop, selfStart, cleaned, selfCleanup, 
                       usedStart, usedStop, hret, wrote, afterStop, ctimedout, 
                       wtimedout, i, ok >>

W9b == /\ pc["w"] = "W9b"
       /\ rs' = "ENDED"
       /\ last' = [t |-> "w", k |-> "W", v |-> "rs", x |-> "ENDED"]
       /\ pc' = [pc EXCEPT !["w"] = "W9c"]
       /\ UNCHANGED << rep, runflag, fin, flag, next, cur, endsOK, res, 
                       startsOK, segments, lateStop, staleStart, lateEnd, 
                       staleEnd, earlyStop, selfStart, pendingStart, cleaned, 
                       selfCleanup, usedStart, usedStop, hret, wrote, 
                       afterStop, ctimedout, wtimedout, i, ok >>

W9c == /\ pc["w"] = "W9c"
       /\ fin' = TRUE
       /\ last' = [t |-> "w", k |-> "W", v |-> "fin", x |-> IF TRUE THEN "True" ELSE "False"]
       /\ IF "clear_after_wait" \in Fixes
             THEN /\ pc' = [pc EXCEPT !["w"] = "W_loop"]
             ELSE /\ pc' = [pc EXCEPT !["w"] = "W_clear"]
       /\ UNCHANGED << rs, rep, runflag, flag, next, cur, endsOK, res, 
                       startsOK, segments, lateStop, staleStart, lateEnd, 
                       staleEnd, earlyStop, selfStart, pendingStart, cleaned, 
                       selfCleanup, usedStart, usedStop, hret, wrote, 
                       afterStop, ctimedout, wtimedout, i, ok >>

W_clear == /\ pc["w"] = "W_clear"
           /\ flag' = FALSE
           /\ last' = [t |-> "w", k |-> "ev", v |-> "clear", x |-> "-"]
           /\ pc' = [pc EXCEPT !["w"] = "W_loop"]
           /\ UNCHANGED << rs, rep, runflag, fin, next, cur, endsOK, res, 
                           startsOK, segments, lateStop, staleStart, lateEnd, 
                           staleEnd, earlyStop, selfStart, pendingStart, 
                           cleaned, selfCleanup, usedStart, usedStop, hret, 
                           wrote, afterStop, ctimedout, wtimedout, i, ok >>

W_loop == /\ pc["w"] = "W_loop"
          /\ last' = [t |-> "w", k |-> "R", v |-> "fin", x |-> IF fin THEN "True" ELSE "False"]
          /\ IF fin
                THEN /\ pc' = [pc EXCEPT !["w"] = "Done"]
                ELSE /\ pc' = [pc EXCEPT !["w"] = "W_wait"]
          /\ UNCHANGED << rs, rep, runflag, fin, flag, next, cur, endsOK, res, 
                          startsOK, segments, lateStop, staleStart, lateEnd, 
                          staleEnd, earlyStop, selfStart, pendingStart, 
                          cleaned, selfCleanup, usedStart, usedStop, hret, 
                          wrote, afterStop, ctimedout, wtimedout, i, ok >>

W_wait == /\ pc["w"] = "W_wait"
          /\ last' = [t |-> "w", k |-> "ev", v |-> "wait", x |-> "-"]
          /\ pc' = [pc EXCEPT !["w"] = "W_woke"]
          /\ UNCHANGED << rs, rep, runflag, fin, flag, next, cur, endsOK, res, 
                          startsOK, segments, lateStop, staleStart, lateEnd, 
                          staleEnd, earlyStop, selfStart, pendingStart, 
                          cleaned, selfCleanup, usedStart, usedStop, hret, 
                          wrote, afterStop, ctimedout, wtimedout, i, ok >>

worker == W_woke \/ W_clear0 \/ W2 \/ W3 \/ W5 \/ R0 \/ R1a \/ R1b
             \/ R_body \/ H1a \/ H1b \/ H3 \/ H4f \/ H4s \/ J1 \/ J2f
             \/ J2s \/ J3 \/ J4 \/ J5 \/ J6 \/ R_fault \/ R_end2 \/ L1a
             \/ L1b \/ L2 \/ L3a \/ L3b \/ L5 \/ L6a \/ L6b \/ L8 \/ L9r
             \/ L9s \/ L10 \/ W7 \/ W8 \/ W9a \/ W9b \/ W9c \/ W_clear
             \/ W_loop \/ W_wait

C_next == /\ pc["c"] = "C_next"
          /\ wrote' = FALSE
          /\ ok' = TRUE
          /\ last' = [t |-> "c", k |-> "cmd", v |-> (Script[i]), x |-> "-"]
          /\ IF Script[i] = "start"
                THEN /\ pc' = [pc EXCEPT !["c"] = "S1a"]
                ELSE /\ IF Script[i] = "stop"
                           THEN /\ pc' = [pc EXCEPT !["c"] = "P1a"]
                           ELSE /\ IF Script[i] = "endrep"
                                      THEN /\ pc' = [pc EXCEPT !["c"] = "E1"]
                                      ELSE /\ pc' = [pc EXCEPT !["c"] = "K1"]
          /\ UNCHANGED << rs, rep, runflag, fin, flag, next, cur, endsOK, res, 
                          startsOK, segments, lateStop, staleStart, lateEnd, 
                          staleEnd, earlyStop, selfStart, pendingStart, 
                          cleaned, selfCleanup, usedStart, usedStop, hret, 
                          afterStop, ctimedout, wtimedout, i >>

S1a == /\ pc["c"] = "S1a"
       /\ last' = [t |-> "c", k |-> "R", v |-> "rs", x |-> rs]
       /\ IF rs = "STARTING"
             THEN /\ ok' = FALSE
                  /\ pc' = [pc EXCEPT !["c"] = "C_ret"]
             ELSE /\ pc' = [pc EXCEPT !["c"] = "S1b"]
                  /\ ok' = ok
       /\ UNCHANGED << rs, rep, runflag, fin, flag, next, cur, endsOK, res, 
                       startsOK, segments, lateStop, staleStart, lateEnd, 
                       staleEnd, earlyStop, selfStart, pendingStart, cleaned, 
                       selfCleanup, usedStart, usedStop, hret, wrote, 
                       afterStop, ctimedout, wtimedout, i >>

S1b == /\ pc["c"] = "S1b"
       /\ last' = [t |-> "c", k |-> "R", v |-> "rs", x |-> rs]
       /\ IF rs = "STARTED"
             THEN /\ ok' = FALSE
                  /\ pc' = [pc EXCEPT !["c"] = "C_ret"]
             ELSE /\ pc' = [pc EXCEPT !["c"] = "S2"]
                  /\ ok' = ok
       /\ UNCHANGED << rs, rep, runflag, fin, flag, next, cur, endsOK, res, 
                       startsOK, segments, lateStop, staleStart, lateEnd, 
                       staleEnd, earlyStop, selfStart, pendingStart, cleaned, 
                       selfCleanup, usedStart, usedStop, hret, wrote, 
                       afterStop, ctimedout, wtimedout, i >>

S2 == /\ pc["c"] = "S2"
      /\ last' = [t |-> "c", k |-> "R", v |-> "rs", x |-> rs]
      /\ IF rs = "NOT_INITIALIZED"
            THEN /\ ok' = FALSE
                 /\ pc' = [pc EXCEPT !["c"] = "C_ret"]
            ELSE /\ IF "refuse_start_in_stopping" \in Fixes
                       THEN /\ pc' = [pc EXCEPT !["c"] = "S2x"]
                       ELSE /\ pc' = [pc EXCEPT !["c"] = "S3a"]
                 /\ ok' = ok
      /\ UNCHANGED << rs, rep, runflag, fin, flag, next, cur, endsOK, res, 
                      startsOK, segments, lateStop, staleStart, lateEnd, 
                      staleEnd, earlyStop, selfStart, pendingStart, cleaned, 
                      selfCleanup, usedStart, usedStop, hret, wrote, afterStop, 
                      ctimedout, wtimedout, i >>

S2x == /\ pc["c"] = "S2x"
       /\ last' = [t |-> "c", k |-> "R", v |-> "rs", x |-> rs]
       /\ IF rs = "STOPPING"
             THEN /\ ok' = FALSE
                  /\ pc' = [pc EXCEPT !["c"] = "C_ret"]
             ELSE /\ pc' = [pc EXCEPT !["c"] = "S3a"]
                  /\ ok' = ok
       /\ UNCHANGED << rs, rep, runflag, fin, flag, next, cur, endsOK, res, 
                       startsOK, segments, lateStop, staleStart, lateEnd, 
                       staleEnd, earlyStop, selfStart, pendingStart, cleaned, 
                       selfCleanup, usedStart, usedStop, hret, wrote, 
                       afterStop, ctimedout, wtimedout, i >>

S3a == /\ pc["c"] = "S3a"
       /\ last' = [t |-> "c", k |-> "R", v |-> "rep", x |-> rep]
       /\ IF rep = "INITIALIZED"
             THEN /\ pc' = [pc EXCEPT !["c"] = "S5"]
             ELSE /\ pc' = [pc EXCEPT !["c"] = "S3b"]
       /\ UNCHANGED << rs, rep, runflag, fin, flag, next, cur, endsOK, res, 
                       startsOK, segments, lateStop, staleStart, lateEnd, 
                       staleEnd, earlyStop, selfStart, pendingStart, cleaned, 
                       selfCleanup, usedStart, usedStop, hret, wrote, 
                       afterStop, ctimedout, wtimedout, i, ok >>

S3b == /\ pc["c"] = "S3b"
       /\ last' = [t |-> "c", k |-> "R", v |-> "rep", x |-> rep]
       /\ IF rep # "STARTED"
             THEN /\ ok' = FALSE
                  /\ pc' = [pc EXCEPT !["c"] = "C_ret"]
             ELSE /\ pc' = [pc EXCEPT !["c"] = "S5"]
                  /\ ok' = ok
       /\ UNCHANGED << rs, rep, runflag, fin, flag, next, cur, endsOK, res, 
                       startsOK, segments, lateStop, staleStart, lateEnd, 
                       staleEnd, earlyStop, selfStart, pendingStart, cleaned, 
                       selfCleanup, usedStart, usedStop, hret, wrote, 
                       afterStop, ctimedout, wtimedout, i >>

S5 == /\ pc["c"] = "S5"
      /\ staleStart' = (staleStart \/ PostRun(pc["w"]) \/ pc["w"] = "R1b")
      /\ rs' = "STARTING"
      /\ wrote' = TRUE
      /\ afterStop' = -1
      /\ pendingStart' = TRUE
      /\ last' = [t |-> "c", k |-> "W", v |-> "rs", x |-> "STARTING"]
      /\ pc' = [pc EXCEPT !["c"] = "S6a"]
      /\ UNCHANGED << rep, runflag, fin, flag, next, cur, endsOK, res, 
                      startsOK, segments, lateStop, lateEnd, staleEnd, 
                      earlyStop, selfStart, cleaned, selfCleanup, usedStart, 
                      usedStop, hret, ctimedout, wtimedout, i, ok >>

S6a == /\ pc["c"] = "S6a"
       /\ last' = [t |-> "c", k |-> "R", v |-> "rep", x |-> rep]
       /\ IF rep # "INITIALIZED"
             THEN /\ pc' = [pc EXCEPT !["c"] = "S8"]
             ELSE /\ pc' = [pc EXCEPT !["c"] = "S6b"]
       /\ UNCHANGED << rs, rep, runflag, fin, flag, next, cur, endsOK, res, 
                       startsOK, segments, lateStop, staleStart, lateEnd, 
                       staleEnd, earlyStop, selfStart, pendingStart, cleaned, 
                       selfCleanup, usedStart, usedStop, hret, wrote, 
                       afterStop, ctimedout, wtimedout, i, ok >>

S6b == /\ pc["c"] = "S6b"
       /\ rep' = "STARTED"
       /\ last' = [t |-> "c", k |-> "W", v |-> "rep", x |-> "STARTED"]
       /\ pc' = [pc EXCEPT !["c"] = "S8"]
       /\ UNCHANGED << rs, runflag, fin, flag, next, cur, endsOK, res, 
                       startsOK, segments, lateStop, staleStart, lateEnd, 
                       staleEnd, earlyStop, selfStart, pendingStart, cleaned, 
                       selfCleanup, usedStart, usedStop, hret, wrote, 
                       afterStop, ctimedout, wtimedout, i, ok >>

S8 == /\ pc["c"] = "S8"
      /\ flag' = TRUE
      /\ ctimedout' = FALSE
      /\ last' = [t |-> "c", k |-> "ev", v |-> "set", x |-> "-"]
      /\ pc' = [pc EXCEPT !["c"] = "S9r"]
      /\ UNCHANGED << rs, rep, runflag, fin, next, cur, endsOK, res, startsOK, 
                      segments, lateStop, staleStart, lateEnd, staleEnd, 
                      earlyStop, selfStart, pendingStart, cleaned, selfCleanup, 
                      usedStart, usedStop, hret, wrote, afterStop, wtimedout, 
                      i, ok >>

S9r == /\ pc["c"] = "S9r"
       /\ last' = [t |-> "c", k |-> "R", v |-> "runflag", x |-> IF runflag THEN "True" ELSE "False"]
       /\ IF runflag \/ ctimedout
             THEN /\ pc' = [pc EXCEPT !["c"] = "S10"]
             ELSE /\ pc' = [pc EXCEPT !["c"] = "S9s"]
       /\ UNCHANGED << rs, rep, runflag, fin, flag, next, cur, endsOK, res, 
                       startsOK, segments, lateStop, staleStart, lateEnd, 
                       staleEnd, earlyStop, selfStart, pendingStart, cleaned, 
                       selfCleanup, usedStart, usedStop, hret, wrote, 
                       afterStop, ctimedout, wtimedout, i, ok >>

S9s == /\ pc["c"] = "S9s"
       /\ \/ /\ last' = [t |-> "c", k |-> "sleep", v |-> "-", x |-> "-"]
             /\ UNCHANGED ctimedout
          \/ /\ AnyTimeout \/ WBlocked \/ WDone
             /\ ctimedout' = TRUE
             /\ last' = [t |-> "c", k |-> "sleep", v |-> "timeout", x |-> "-"]
       /\ pc' = [pc EXCEPT !["c"] = "S9r"]
       /\ UNCHANGED << rs, rep, runflag, fin, flag, next, cur, endsOK, res, 
                       startsOK, segments, lateStop, staleStart, lateEnd, 
                       staleEnd, earlyStop, selfStart, pendingStart, cleaned, 
                       selfCleanup, usedStart, usedStop, hret, wrote, 
                       afterStop, wtimedout, i, ok >>

S10 == /\ pc["c"] = "S10"
       /\ runflag' = FALSE
       /\ startsOK' = startsOK + 1
       /\ last' = [t |-> "c", k |-> "W", v |-> "runflag", x |-> IF FALSE THEN "True" ELSE "False"]
       /\ pc' = [pc EXCEPT !["c"] = "C_ret"]
       /\ UNCHANGED << rs, rep, fin, flag, next, cur, endsOK, res, segments, 
                       lateStop, staleStart, lateEnd, staleEnd, earlyStop, 
                       selfStart, pendingStart, cleaned, selfCleanup, 
                       usedStart, usedStop, hret, wrote, afterStop, ctimedout, 
                       wtimedout, i, ok >>

P1a == /\ pc["c"] = "P1a"
       /\ last' = [t |-> "c", k |-> "R", v |-> "rs", x |-> rs]
       /\ IF rs = "STARTING"
             THEN /\ pc' = [pc EXCEPT !["c"] = "P3"]
             ELSE /\ pc' = [pc EXCEPT !["c"] = "P1b"]
       /\ UNCHANGED << rs, rep, runflag, fin, flag, next, cur, endsOK, res, 
                       startsOK, segments, lateStop, staleStart, lateEnd, 
                       staleEnd, earlyStop, selfStart, pendingStart, cleaned, 
                       selfCleanup, usedStart, usedStop, hret, wrote, 
                       afterStop, ctimedout, wtimedout, i, ok >>

P1b == /\ pc["c"] = "P1b"
       /\ last' = [t |-> "c", k |-> "R", v |-> "rs", x |-> rs]
       /\ IF rs # "STARTED"
             THEN /\ ok' = FALSE
                  /\ pc' = [pc EXCEPT !["c"] = "C_ret"]
             ELSE /\ pc' = [pc EXCEPT !["c"] = "P3"]
                  /\ ok' = ok
       /\ UNCHANGED << rs, rep, runflag, fin, flag, next, cur, endsOK, res, 
                       startsOK, segments, lateStop, staleStart, lateEnd, 
                       staleEnd, earlyStop, selfStart, pendingStart, cleaned, 
                       selfCleanup, usedStart, usedStop, hret, wrote, 
                       afterStop, ctimedout, wtimedout, i >>

P3 == /\ pc["c"] = "P3"
      /\ lateStop' = (lateStop \/ ~InRunLoop(pc["w"]) \/ pc["w"] = "R_end2")
      /\ rs' = "STOPPING"
      /\ wrote' = TRUE
      /\ ctimedout' = FALSE
      /\ afterStop' = 0
      /\ pendingStart' = FALSE
      /\ last' = [t |-> "c", k |-> "W", v |-> "rs", x |-> "STOPPING"]
      /\ IF WBlocked
            THEN /\ IF "settle_late_stopping" \in Fixes
                       THEN /\ pc' = [pc EXCEPT !["c"] = "P5a"]
                       ELSE /\ pc' = [pc EXCEPT !["c"] = "C_ret"]
            ELSE /\ pc' = [pc EXCEPT !["c"] = "P4f"]
      /\ UNCHANGED << rep, runflag, fin, flag, next, cur, endsOK, res, 
                      startsOK, segments, staleStart, lateEnd, staleEnd, 
                      earlyStop, selfStart, cleaned, selfCleanup, usedStart, 
                      usedStop, hret, wtimedout, i, ok >>

P4f == /\ pc["c"] = "P4f"
       /\ last' = [t |-> "c", k |-> "R", v |-> "fin", x |-> IF fin THEN "True" ELSE "False"]
       /\ IF fin \/ ctimedout
             THEN /\ IF "settle_late_stopping" \in Fixes
                        THEN /\ pc' = [pc EXCEPT !["c"] = "P5a"]
                        ELSE /\ pc' = [pc EXCEPT !["c"] = "C_ret"]
             ELSE /\ pc' = [pc EXCEPT !["c"] = "P4s"]
       /\ UNCHANGED << rs, rep, runflag, fin, flag, next, cur, endsOK, res, 
                       startsOK, segments, lateStop, staleStart, lateEnd, 
                       staleEnd, earlyStop, selfStart, pendingStart, cleaned, 
                       selfCleanup, usedStart, usedStop, hret, wrote, 
                       afterStop, ctimedout, wtimedout, i, ok >>

P4s == /\ pc["c"] = "P4s"
       /\ \/ /\ last' = [t |-> "c", k |-> "sleep", v |-> "-", x |-> "-"]
             /\ IF WBlocked
                   THEN /\ IF "settle_late_stopping" \in Fixes
                              THEN /\ pc' = [pc EXCEPT !["c"] = "P5a"]
                              ELSE /\ pc' = [pc EXCEPT !["c"] = "C_ret"]
                   ELSE /\ pc' = [pc EXCEPT !["c"] = "P4f"]
             /\ UNCHANGED ctimedout
          \/ /\ AnyTimeout \/ WDone \/ WBlocked
             /\ ctimedout' = TRUE
             /\ last' = [t |-> "c", k |-> "sleep", v |-> "timeout", x |-> "-"]
             /\ IF WBlocked
                   THEN /\ IF "settle_late_stopping" \in Fixes
                              THEN /\ pc' = [pc EXCEPT !["c"] = "P5a"]
                              ELSE /\ pc' = [pc EXCEPT !["c"] = "C_ret"]
                   ELSE /\ pc' = [pc EXCEPT !["c"] = "P4f"]
       /\ UNCHANGED << rs, rep, runflag, fin, flag, next, cur, endsOK, res, 
                       startsOK, segments, lateStop, staleStart, lateEnd, 
                       staleEnd, earlyStop, selfStart, pendingStart, cleaned, 
                       selfCleanup, usedStart, usedStop, hret, wrote, 
                       afterStop, wtimedout, i, ok >>

P5a == /\ pc["c"] = "P5a"
       /\ last' = [t |-> "c", k |-> "R", v |-> "rs", x |-> rs]
       /\ IF rs # "STOPPING"
             THEN /\ pc' = [pc EXCEPT !["c"] = "C_ret"]
             ELSE /\ pc' = [pc EXCEPT !["c"] = "P5b"]
       /\ UNCHANGED << rs, rep, runflag, fin, flag, next, cur, endsOK, res, 
                       startsOK, segments, lateStop, staleStart, lateEnd, 
                       staleEnd, earlyStop, selfStart, pendingStart, cleaned, 
                       selfCleanup, usedStart, usedStop, hret, wrote, 
                       afterStop, ctimedout, wtimedout, i, ok >>

P5b == /\ pc["c"] = "P5b"
       /\ last' = [t |-> "c", k |-> "R", v |-> "rep", x |-> rep]
       /\ IF rep = "ENDED"
             THEN /\ pc' = [pc EXCEPT !["c"] = "P5c"]
             ELSE /\ pc' = [pc EXCEPT !["c"] = "P5d"]
       /\ UNCHANGED << rs, rep, runflag, fin, flag, next, cur, endsOK, res, 
                       startsOK, segments, lateStop, staleStart, lateEnd, 
                       staleEnd, earlyStop, selfStart, pendingStart, cleaned, 
                       selfCleanup, usedStart, usedStop, hret, wrote, 
                       afterStop, ctimedout, wtimedout, i, ok >>

P5c == /\ pc["c"] = "P5c"
       /\ rs' = "ENDED"
       /\ last' = [t |-> "c", k |-> "W", v |-> "rs", x |-> "ENDED"]
       /\ pc' = [pc EXCEPT !["c"] = "C_ret"]
       /\ UNCHANGED << rep, runflag, fin, flag, next, cur, endsOK, res, 
                       startsOK, segments, lateStop, staleStart, lateEnd, 
                       staleEnd, earlyStop, selfStart, pendingStart, cleaned, 
                       selfCleanup, usedStart, usedStop, hret, wrote, 
                       afterStop, ctimedout, wtimedout, i, ok >>

P5d == /\ pc["c"] = "P5d"
       /\ rs' = "STOPPED"
       /\ last' = [t |-> "c", k |-> "W", v |-> "rs", x |-> "STOPPED"]
       /\ pc' = [pc EXCEPT !["c"] = "E1"]
       /\ UNCHANGED << rep, runflag, fin, flag, next, cur, endsOK, res, 
                       startsOK, segments, lateStop, staleStart, lateEnd, 
                       staleEnd, earlyStop, selfStart, pendingStart, cleaned, 
                       selfCleanup, usedStart, usedStop, hret, wrote, 
                       afterStop, ctimedout, wtimedout, i, ok >>

E1 == /\ pc["c"] = "E1"
      /\ last' = [t |-> "c", k |-> "R", v |-> "rs", x |-> rs]
      /\ IF rs = "NOT_INITIALIZED"
            THEN /\ ok' = FALSE
                 /\ pc' = [pc EXCEPT !["c"] = "C_ret"]
            ELSE /\ pc' = [pc EXCEPT !["c"] = "E2"]
                 /\ ok' = ok
      /\ UNCHANGED << rs, rep, runflag, fin, flag, next, cur, endsOK, res, 
                      startsOK, segments, lateStop, staleStart, lateEnd, 
                      staleEnd, earlyStop, selfStart, pendingStart, cleaned, 
                      selfCleanup, usedStart, usedStop, hret, wrote, afterStop, 
                      ctimedout, wtimedout, i >>

E2 == /\ pc["c"] = "E2"
      /\ last' = [t |-> "c", k |-> "R", v |-> "rep", x |-> rep]
      /\ IF rep = "ENDED"
            THEN /\ ok' = FALSE
                 /\ pc' = [pc EXCEPT !["c"] = "C_ret"]
            ELSE /\ pc' = [pc EXCEPT !["c"] = "E3"]
                 /\ ok' = ok
      /\ UNCHANGED << rs, rep, runflag, fin, flag, next, cur, endsOK, res, 
                      startsOK, segments, lateStop, staleStart, lateEnd, 
                      staleEnd, earlyStop, selfStart, pendingStart, cleaned, 
                      selfCleanup, usedStart, usedStop, hret, wrote, afterStop, 
                      ctimedout, wtimedout, i >>

E3 == /\ pc["c"] = "E3"
      /\ lateEnd' = (lateEnd \/ rep = "ENDED")
      /\ rep' = "ENDING"
      /\ wrote' = TRUE
      /\ last' = [t |-> "c", k |-> "W", v |-> "rep", x |-> "ENDING"]
      /\ pc' = [pc EXCEPT !["c"] = "E4"]
      /\ UNCHANGED << rs, runflag, fin, flag, next, cur, endsOK, res, startsOK, 
                      segments, lateStop, staleStart, staleEnd, earlyStop, 
                      selfStart, pendingStart, cleaned, selfCleanup, usedStart, 
                      usedStop, hret, afterStop, ctimedout, wtimedout, i, ok >>

E4 == /\ pc["c"] = "E4"
      /\ staleEnd' = (staleEnd \/ pc["w"] = "W_clear")
      /\ flag' = TRUE
      /\ next' = NEvents + 1
      /\ endsOK' = endsOK + 1
      /\ last' = [t |-> "c", k |-> "ev", v |-> "set", x |-> "-"]
      /\ pc' = [pc EXCEPT !["c"] = "C_ret"]
      /\ UNCHANGED << rs, rep, runflag, fin, cur, res, startsOK, segments, 
                      lateStop, staleStart, lateEnd, earlyStop, selfStart, 
                      pendingStart, cleaned, selfCleanup, usedStart, usedStop, 
                      hret, wrote, afterStop, ctimedout, wtimedout, i, ok >>

K1 == /\ pc["c"] = "K1"
      /\ rs' = "STOPPING"
      /\ wrote' = TRUE
      /\ ctimedout' = FALSE
      /\ afterStop' = 0
      /\ pendingStart' = FALSE
      /\ last' = [t |-> "c", k |-> "W", v |-> "rs", x |-> "STOPPING"]
      /\ IF WBlocked
            THEN /\ pc' = [pc EXCEPT !["c"] = "K3"]
            ELSE /\ pc' = [pc EXCEPT !["c"] = "K2f"]
      /\ UNCHANGED << rep, runflag, fin, flag, next, cur, endsOK, res, 
                      startsOK, segments, lateStop, staleStart, lateEnd, 
                      staleEnd, earlyStop, selfStart, cleaned, selfCleanup, 
                      usedStart, usedStop, hret, wtimedout, i, ok >>

K2f == /\ pc["c"] = "K2f"
       /\ last' = [t |-> "c", k |-> "R", v |-> "fin", x |-> IF fin THEN "True" ELSE "False"]
       /\ IF fin \/ ctimedout
             THEN /\ pc' = [pc EXCEPT !["c"] = "K3"]
             ELSE /\ pc' = [pc EXCEPT !["c"] = "K2s"]
       /\ UNCHANGED << rs, rep, runflag, fin, flag, next, cur, endsOK, res, 
                       startsOK, segments, lateStop, staleStart, lateEnd, 
                       staleEnd, earlyStop, selfStart, pendingStart, cleaned, 
                       selfCleanup, usedStart, usedStop, hret, wrote, 
                       afterStop, ctimedout, wtimedout, i, ok >>

K2s == /\ pc["c"] = "K2s"
       /\ \/ /\ last' = [t |-> "c", k |-> "sleep", v |-> "-", x |-> "-"]
             /\ IF WBlocked
                   THEN /\ pc' = [pc EXCEPT !["c"] = "K3"]
                   ELSE /\ pc' = [pc EXCEPT !["c"] = "K2f"]
             /\ UNCHANGED ctimedout
          \/ /\ AnyTimeout \/ WDone \/ WBlocked
             /\ ctimedout' = TRUE
             /\ last' = [t |-> "c", k |-> "sleep", v |-> "timeout", x |-> "-"]
             /\ IF WBlocked
                   THEN /\ pc' = [pc EXCEPT !["c"] = "K3"]
                   ELSE /\ pc' = [pc EXCEPT !["c"] = "K2f"]
       /\ UNCHANGED << rs, rep, runflag, fin, flag, next, cur, endsOK, res, 
                       startsOK, segments, lateStop, staleStart, lateEnd, 
                       staleEnd, earlyStop, selfStart, pendingStart, cleaned, 
                       selfCleanup, usedStart, usedStop, hret, wrote, 
                       afterStop, wtimedout, i, ok >>

K3 == /\ pc["c"] = "K3"
      /\ fin' = TRUE
      /\ last' = [t |-> "c", k |-> "W", v |-> "fin", x |-> IF TRUE THEN "True" ELSE "False"]
      /\ pc' = [pc EXCEPT !["c"] = "K4"]
      /\ UNCHANGED << rs, rep, runflag, flag, next, cur, endsOK, res, startsOK, 
                      segments, lateStop, staleStart, lateEnd, staleEnd, 
                      earlyStop, selfStart, pendingStart, cleaned, selfCleanup, 
                      usedStart, usedStop, hret, wrote, afterStop, ctimedout, 
                      wtimedout, i, ok >>

K4 == /\ pc["c"] = "K4"
      /\ flag' = TRUE
      /\ last' = [t |-> "c", k |-> "ev", v |-> "set", x |-> "-"]
      /\ pc' = [pc EXCEPT !["c"] = "K5"]
      /\ UNCHANGED << rs, rep, runflag, fin, next, cur, endsOK, res, startsOK, 
                      segments, lateStop, staleStart, lateEnd, staleEnd, 
                      earlyStop, selfStart, pendingStart, cleaned, selfCleanup, 
                      usedStart, usedStop, hret, wrote, afterStop, ctimedout, 
                      wtimedout, i, ok >>

K5 == /\ pc["c"] = "K5"
      /\ rs' = "NOT_INITIALIZED"
      /\ afterStop' = -1
      /\ last' = [t |-> "c", k |-> "W", v |-> "rs", x |-> "NOT_INITIALIZED"]
      /\ pc' = [pc EXCEPT !["c"] = "K6"]
      /\ UNCHANGED << rep, runflag, fin, flag, next, cur, endsOK, res, 
                      startsOK, segments, lateStop, staleStart, lateEnd, 
                      staleEnd, earlyStop, selfStart, pendingStart, cleaned, 
                      selfCleanup, usedStart, usedStop, hret, wrote, ctimedout, 
                      wtimedout, i, ok >>

K6 == /\ pc["c"] = "K6"
      /\ rep' = "NOT_INITIALIZED"
      /\ cleaned' = TRUE
      /\ last' = [t |-> "c", k |-> "W", v |-> "rep", x |-> "NOT_INITIALIZED"]
      /\ pc' = [pc EXCEPT !["c"] = "C_ret"]
      /\ UNCHANGED << rs, runflag, fin, flag, next, cur, endsOK, res, startsOK, 
                      segments, lateStop, staleStart, lateEnd, staleEnd, 
                      earlyStop, selfStart, pendingStart, selfCleanup, 
                      usedStart, usedStop, hret, wrote, afterStop, ctimedout, 
                      wtimedout, i, ok >>

C_ret == /\ pc["c"] = "C_ret"
         /\ res' = Append(res, IF ok THEN "ok" ELSE "DSOLError")
         /\ last' = [t |-> "c", k |-> "ret", v |-> (Script[i]), x |-> (IF ok THEN "ok" ELSE "DSOLError")]
         /\ i' = i + 1
         /\ IF i' > Len(Script)
               THEN /\ pc' = [pc EXCEPT !["c"] = "Done"]
               ELSE /\ pc' = [pc EXCEPT !["c"] = "C_next"]
         /\ UNCHANGED << rs, rep, runflag, fin, flag, next, cur, endsOK, 
                         startsOK, segments, lateStop, staleStart, lateEnd, 
                         staleEnd, earlyStop, selfStart, pendingStart, cleaned, 
                         selfCleanup, usedStart, usedStop, hret, wrote, 
                         afterStop, ctimedout, wtimedout, ok >>

caller == C_next \/ S1a \/ S1b \/ S2 \/ S2x \/ S3a \/ S3b \/ S5 \/ S6a
             \/ S6b \/ S8 \/ S9r \/ S9s \/ S10 \/ P1a \/ P1b \/ P3 \/ P4f
             \/ P4s \/ P5a \/ P5b \/ P5c \/ P5d \/ E1 \/ E2 \/ E3 \/ E4
             \/ K1 \/ K2f \/ K2s \/ K3 \/ K4 \/ K5 \/ K6 \/ C_ret

(* Allow infinite stuttering to prevent deadlock on termination. *)
Terminating == /\ \A self \in ProcSet: pc[self] = "Done"
               /\ UNCHANGED vars

Next == worker \/ caller
           \/ Terminating

Spec == /\ Init /\ [][Next]_vars
        /\ WF_vars(worker)

Termination == <>(\A self \in ProcSet: pc[self] = "Done")

\* END TRANSLATION

-----------------------------------------------------------------------------
Quiescent == pc["c"] = "Done" /\ (pc["w"] = "Done" \/ (pc["w"] = "W_woke" /\ ~flag))

(* the statement's observables at quiescence *)
NoStuckState == Quiescent => rs \notin {"STARTING", "STARTED", "STOPPING"}
NoLostStart == Quiescent => segments = startsOK      \* (too syntactic: a start admitted while a handler is still running keeps that segment alive; not checked)
(* an accepted start() takes effect: the run thread begins a segment, or keeps the current one running, or the replication ends *)
StartEffective == Quiescent => ~pendingStart
NoSpuriousSegment == Quiescent => segments <= startsOK
(* an accepted cleanup() leaves the simulator uninitialised and the run thread gone *)
CleanupFinal == (Quiescent /\ cleaned) => (rs = "NOT_INITIALIZED" /\ rep = "NOT_INITIALIZED" /\ pc["w"] = "Done")
EndedFinal == (Quiescent /\ rep = "ENDED") => (rs = "ENDED" /\ pc["w"] = "Done")
ThreadGoneAfterEnd == (Quiescent /\ rs = "ENDED") => pc["w"] = "Done"
RefusedWroteNothing == (last.k = "ret" /\ last.x = "DSOLError") => ~wrote
(* an accepted stop() takes effect: after its STOPPING write the run thread finishes at most the event in progress *)
StopEffective == afterStop <= 1

(* the same, with the known race / listener families of the pinned tree set aside (they are reported as known findings) *)
Known == lateStop \/ staleStart \/ lateEnd \/ staleEnd \/ earlyStop \/ selfStart \/ selfCleanup
NoStuckStateK == Known \/ NoStuckState
NoLostStartK == Known \/ NoLostStart
StartEffectiveK == Known \/ StartEffective
CleanupFinalK == Known \/ CleanupFinal
EndedFinalK == Known \/ EndedFinal
ThreadGoneK == Known \/ ThreadGoneAfterEnd
StopEffectiveK == Known \/ StopEffective
(* an accepted end_replication() ends the replication *)
EndRepEffective == (Quiescent /\ endsOK > 0) => (rep = "ENDED" /\ rs = "ENDED" /\ pc["w"] = "Done")
EndRepEffectiveK == Known \/ EndRepEffective

(* ---- liveness (checked with TLC on every scenario under LiveSpec): commands return, the run thread parks or ends ---- *)
(* fairness: both threads keep taking steps, and the clock advances: a spin wait that can only be ended by its         *)
(* one-second limit does reach that limit (strong fairness on the time-out branch of the sleep points)                  *)
TimeoutStep == (H4s \/ L9s \/ S9s \/ P4s \/ K2s \/ J2s) /\ last'.v = "timeout"
LiveSpec == Spec /\ WF_vars(caller) /\ SF_vars(TimeoutStep)
Settles == <>[]Quiescent                                        \* no livelock: every scenario ends in a quiescent state
EndedThreadGone == [](rs = "ENDED" => <>(pc["w"] = "Done"))    \* after the replication end the run thread terminates
EveryCommandReturns == \A k \in 1..Len(Script) : <>(Len(res) >= k)
=============================================================================
