------------------------------- MODULE Params -------------------------------
(* Input parameter trees of pydsol.core.parameters (C18).                      *)
(* Node 1 is the root map of a model.  A leaf has a kind, abstract value       *)
(* classes ("v1","v2" valid, "oob" out of bounds / not an option, "wrongtype"),*)
(* a default, a read-only flag and a display priority; a node's id is its      *)
(* insertion rank.  Paths are sequences of keys relative to the root map.      *)
EXTENDS Integers, Sequences, FiniteSets

CONSTANTS MaxNodes, Keys, Kinds, Prios, MaxSteps, Bounded, MaxPath
    \* Bounded: kinds that have an "oob" class (bounds / options / units)

VARIABLES nodes, cnt, steps, op,
          ins       \* insertion counter: a node's seq is the moment it was (last) added to its parent
pvars == <<nodes, cnt, steps, op, ins>>

Valid == {"v1", "v2"}
Root == 1
Alive(i) == i \in 1..cnt /\ nodes[i].alive
IsMap(i) == nodes[i].kind = "map"
Kids(m) == {i \in 1..cnt : nodes[i].alive /\ nodes[i].parent = m}
ChildWithKey(m, k) == {i \in Kids(m) : nodes[i].key = k}

(* listing order of a map: display priority, ties in insertion order *)
Less(i, j) == nodes[i].prio < nodes[j].prio \/ (nodes[i].prio = nodes[j].prio /\ nodes[i].seq < nodes[j].seq)
RECURSIVE Order(_)
Order(S) == IF S = {} THEN <<>>
            ELSE LET m == CHOOSE i \in S : \A j \in S : j = i \/ Less(i, j) IN <<m>> \o Order(S \ {m})
Listing(m) == [k \in 1..Len(Order(Kids(m))) |-> nodes[Order(Kids(m))[k]].key]

RECURSIVE Resolve(_, _)
Resolve(m, path) ==       \* node id or 0
    IF path = <<>> THEN 0
    ELSE LET c == ChildWithKey(m, Head(path)) IN
         IF c = {} THEN 0
         ELSE LET i == CHOOSE x \in c : TRUE IN
              IF Len(path) = 1 THEN i
              ELSE IF IsMap(i) THEN Resolve(i, Tail(path)) ELSE 0

RECURSIVE PathOf(_)
PathOf(i) == IF nodes[i].parent = Root THEN <<nodes[i].key>> ELSE PathOf(nodes[i].parent) \o <<nodes[i].key>>

RECURSIVE Under(_, _)
Under(i, a) == i = a \/ (i # Root /\ nodes[i].parent # 0 /\ Under(nodes[i].parent, a))

Blank == [kind |-> "none", key |-> "", parent |-> 0, prio |-> 0, ro |-> FALSE, val |-> "none", def |-> "none", alive |-> FALSE, det |-> FALSE, seq |-> 0]
Init == /\ nodes = [i \in 1..MaxNodes |-> IF i = Root
                       THEN [kind |-> "map", key |-> "root", parent |-> 0, prio |-> 1, ro |-> TRUE, val |-> "map", def |-> "none", alive |-> TRUE, det |-> FALSE, seq |-> 0]
                       ELSE Blank]
        /\ cnt = 1 /\ steps = 0 /\ op = [a |-> "Init"] /\ ins = 0

More == steps < MaxSteps /\ steps' = steps + 1
Same == nodes' = nodes /\ cnt' = cnt /\ ins' = ins

(* construct a parameter (leaf or map) with a parent: registered only if everything is valid *)
New(kind, key, par, dclass, ro, prio) ==
    /\ More /\ cnt < MaxNodes /\ Alive(par) /\ IsMap(par)
    /\ (kind = "map" => dclass = "v1" /\ ro = TRUE)
    /\ (dclass = "oob" => kind \in Bounded)
    /\ LET ok == ChildWithKey(par, key) = {} /\ dclass = "v1" IN
       IF ok THEN /\ cnt' = cnt + 1
                  /\ nodes' = [nodes EXCEPT ![cnt + 1] =
                        [kind |-> kind, key |-> key, parent |-> par, prio |-> prio, ro |-> ro,
                         val |-> IF kind = "map" THEN "map" ELSE "v1", def |-> IF kind = "map" THEN "none" ELSE "v1", alive |-> TRUE,
                         det |-> FALSE, seq |-> ins + 1]]
                  /\ ins' = ins + 1
                  /\ op' = [a |-> "New", kind |-> kind, key |-> key, par |-> par, dclass |-> dclass, ro |-> ro, prio |-> prio,
                            res |-> "ok", id |-> cnt + 1]
       ELSE Same /\ op' = [a |-> "New", kind |-> kind, key |-> key, par |-> par, dclass |-> dclass, ro |-> ro, prio |-> prio,
                           res |-> "error", id |-> 0]

SetEffect(i, vclass) ==   \* shared by set_value on the object and model.set_parameter
    IF IsMap(i) \/ nodes[i].ro \/ vclass \notin Valid
    THEN <<nodes, "error">>
    ELSE <<[nodes EXCEPT ![i].val = vclass], "ok">>

SetValue(i, vclass) ==
    /\ More /\ Alive(i) /\ (vclass = "oob" => nodes[i].kind \in Bounded)
    /\ LET e == SetEffect(i, vclass) IN
       /\ nodes' = e[1] /\ cnt' = cnt /\ ins' = ins
       /\ op' = [a |-> "SetValue", id |-> i, vclass |-> vclass, res |-> e[2]]

ModelSet(path, vclass) ==
    /\ More
    /\ LET i == Resolve(Root, path) IN
       IF i = 0 THEN Same /\ op' = [a |-> "ModelSet", path |-> path, vclass |-> vclass, res |-> "KeyError"]
       ELSE /\ (vclass = "oob" => nodes[i].kind \in Bounded)
            /\ LET e == SetEffect(i, vclass) IN
               /\ nodes' = e[1] /\ cnt' = cnt /\ ins' = ins
               /\ op' = [a |-> "ModelSet", path |-> path, vclass |-> vclass, res |-> e[2]]

Get(path) ==
    /\ More /\ Same
    /\ LET i == Resolve(Root, path) IN
       op' = [a |-> "Get", path |-> path, res |-> IF i = 0 THEN "KeyError" ELSE "ok", id |-> i,
              val |-> IF i = 0 THEN "none" ELSE nodes[i].val]

Remove(path) ==
    /\ More
    /\ LET i == Resolve(Root, path) IN
       IF i = 0 THEN Same /\ op' = [a |-> "Remove", path |-> path, res |-> "KeyError", id |-> 0]
       ELSE /\ nodes' = [nodes EXCEPT ![i].alive = FALSE, ![i].det = TRUE]     \* the removed object (with its subtree) is detached
            /\ cnt' = cnt /\ ins' = ins
            /\ op' = [a |-> "Remove", path |-> path, res |-> "ok", id |-> i]

(* a parameter (or sub-map) that was removed is added to a map again, possibly a different one *)
Move(i, par) ==
    /\ More /\ i \in 2..cnt /\ nodes[i].det /\ Alive(par) /\ IsMap(par) /\ ~Under(par, i)
    /\ \A a \in 1..cnt : Under(par, a) => nodes[a].alive
    /\ IF ChildWithKey(par, nodes[i].key) # {}
       THEN Same /\ op' = [a |-> "Move", id |-> i, par |-> par, res |-> "error"]
       ELSE /\ nodes' = [nodes EXCEPT ![i].alive = TRUE, ![i].det = FALSE, ![i].parent = par, ![i].seq = ins + 1]
            /\ ins' = ins + 1 /\ cnt' = cnt
            /\ op' = [a |-> "Move", id |-> i, par |-> par, res |-> "ok"]

ModelGet(path) ==
    /\ More /\ Same
    /\ LET i == Resolve(Root, path) IN
       op' = [a |-> "ModelGet", path |-> path, res |-> IF i = 0 THEN "KeyError" ELSE "ok", id |-> i,
              val |-> IF i = 0 THEN "none" ELSE nodes[i].val]

Paths == UNION {[1..k -> Keys] : k \in 1..MaxPath}
NewAny == \E kind \in Kinds, key \in Keys, par \in 1..cnt, d \in {"v1", "oob", "wrongtype"}, ro \in BOOLEAN, p \in Prios :
             New(kind, key, par, d, ro, p)
SetAny == \E i \in 2..cnt, v \in {"v1", "v2", "oob", "wrongtype"} : SetValue(i, v)
ModelSetAny == \E pth \in Paths, v \in {"v2", "oob", "wrongtype"} : ModelSet(pth, v)
GetAny == \E pth \in Paths : Get(pth)
RemoveAny == \E pth \in Paths : Remove(pth)
MoveAny == \E i \in 2..cnt, par \in 1..cnt : Move(i, par)
ModelGetAny == \E pth \in Paths : ModelGet(pth)
Next == NewAny \/ SetAny \/ ModelSetAny \/ GetAny \/ RemoveAny \/ MoveAny \/ ModelGetAny
Spec == Init /\ [][Next]_pvars

-----------------------------------------------------------------------------
Leaves == {i \in 2..cnt : nodes[i].kind # "map"}
ValueValid == \A i \in Leaves : nodes[i].val \in Valid
DefaultNeverChanges == [][\A i \in 2..cnt : nodes'[i].def = nodes[i].def]_pvars
ReadOnlyNeverChanges == [][\A i \in 2..cnt : nodes[i].ro => nodes'[i].val = nodes[i].val]_pvars
RejectedLeavesUnchanged == [][(op'.res # "ok") => (nodes' = nodes /\ cnt' = cnt /\ ins' = ins)]_pvars
UniqueKeys == \A m \in 1..cnt : \A i, j \in Kids(m) : nodes[i].key = nodes[j].key => i = j
EveryNodeReachable == \A i \in 2..cnt : (nodes[i].alive /\ \A a \in 1..cnt : Under(i, a) => nodes[a].alive) => Resolve(Root, PathOf(i)) = i
ModelSetGetRoundTrip == [][(op'.a = "ModelSet" /\ op'.res = "ok") => nodes'[Resolve(Root, op'.path)].val = op'.vclass]_pvars
=============================================================================
