---------------------------- MODULE RunListeners ----------------------------
(* Growth of ClockListeners.tla: the run is cut into BOUNDED SEGMENTS          *)
(* (run_up_to / run_up_to_including / start) and the listeners of EVERY        *)
(* notification the run thread fires (START, TIME_CHANGED, WARMUP, STOP)       *)
(* schedule and cancel events.  What a listener sees as "now" is the time      *)
(* stamp of the notification it is handling (C04), which is the simulator      *)
(* time (C02): the clock at the start of the segment for START, the time of    *)
(* the event about to run for TIME_CHANGED, the warm-up time for WARMUP, and   *)
(* the clock AFTER it was moved to the bound for STOP.  Events a STOP listener *)
(* schedules at the bound are executed by the next segment (exactly once, in   *)
(* order, C02 / C03); nothing is ever scheduled in the past, the clock and the *)
(* stamps never go back.                                                       *)
EXTENDS Integers, Sequences, FiniteSets

CONSTANTS EndT, WarmT, MaxEv, Delays, Prios,
          Bounds,        \* bounds offered to the segments (EndT inclusive is always offered)
          StampLag       \* FALSE: as the code is.  TRUE (self-test): STOP is stamped before the clock is moved to the bound

VARIABLES clock,      \* simulator time
          ev,         \* all events ever scheduled: [t, p, w]  (w: the simulator's own warm-up event), id = index
          pending,    \* ids on the event list
          run,        \* a segment is in progress
          bound, incl,
          win,        \* the notification being delivered: [ty, ts] (listeners act only inside one), ty = "none" outside
          about,      \* the event taken off the list, announced, about to run (0: none)
          lastTs,     \* stamp of the last notification (-1: none)
          ended,      \* the replication has ended
          step,       \* 0: no step() in progress; 1: step() has fired START and has not executed its event; 2: it has
          executed,   \* history: ids in execution order
          op
vars == <<clock, ev, pending, run, bound, incl, win, about, lastTs, ended, step, executed, op>>

NoWin == [ty |-> "none", ts |-> -1]
Less(i, j) == \/ ev[i].t < ev[j].t
              \/ ev[i].t = ev[j].t /\ ev[i].p > ev[j].p
              \/ ev[i].t = ev[j].t /\ ev[i].p = ev[j].p /\ i < j
First(P) == CHOOSE i \in P : \A j \in P \ {i} : Less(i, j)
Within(m) == ev[m].t < bound \/ (ev[m].t = bound /\ incl)
HasNext == pending # {} /\ Within(First(pending))

Init == /\ clock = 0 /\ ev = <<[t |-> WarmT, p |-> 10, w |-> TRUE]>> /\ pending = {1}
        /\ run = FALSE /\ bound = 0 /\ incl = TRUE /\ win = NoWin /\ about = 0 /\ lastTs = -1
        /\ ended = FALSE /\ step = 0 /\ executed = <<>> /\ op = [a |-> "Init"]

(* construct_model, a handler, or a listener inside a notification schedules relative to the simulator time *)
Sched(by, d, p) ==
    /\ Len(ev) < MaxEv
    /\ by = "init" => ~run /\ executed = <<>> /\ lastTs = -1
    /\ by = "listener" => win.ty # "none"
    /\ by = "handler" => run /\ win.ty \in {"none", "WARMUP"} /\ executed # <<>>
    /\ ev' = Append(ev, [t |-> clock + d, p |-> p, w |-> FALSE])
    /\ pending' = pending \cup {Len(ev) + 1}
    /\ op' = [a |-> "Sched", by |-> by, d |-> d, p |-> p, t |-> clock + d, id |-> Len(ev) + 1]
    /\ UNCHANGED <<clock, run, bound, incl, win, about, lastTs, ended, step, executed>>

(* a listener cancels a pending event (the event about to run is no longer on the list: it runs all the same) *)
Cancel(e) ==
    /\ win.ty # "none" /\ e \in pending /\ ~ev[e].w
    /\ pending' = pending \ {e}
    /\ op' = [a |-> "Cancel", id |-> e]
    /\ UNCHANGED <<clock, ev, run, bound, incl, win, about, lastTs, ended, step, executed>>

StartSeg(b, inc) ==
    /\ ~run /\ ~ended /\ clock < EndT /\ b >= clock /\ b <= EndT
    /\ run' = TRUE /\ bound' = b /\ incl' = inc
    /\ win' = [ty |-> "START", ts |-> clock] /\ lastTs' = clock
    /\ op' = [a |-> "Start", ts |-> clock, b |-> b, inc |-> inc]
    /\ UNCHANGED <<clock, ev, pending, about, ended, step, executed>>

(* step(): START, at most one event (taken off the list BEFORE its time is announced, like the run loop does, and announced *)
(* whether or not the time changes), STOP at the clock; the clock does not move to any bound and the replication never ends *)
StepSeg ==
    /\ ~run /\ ~ended /\ clock < EndT
    /\ run' = TRUE /\ bound' = EndT /\ incl' = TRUE /\ step' = 1
    /\ win' = [ty |-> "START", ts |-> clock] /\ lastTs' = clock
    /\ op' = [a |-> "StepStart", ts |-> clock]
    /\ UNCHANGED <<clock, ev, pending, about, ended, executed>>

StepEnd ==
    /\ run /\ about = 0 /\ (step = 2 \/ (step = 1 /\ ~HasNext))
    /\ run' = FALSE /\ step' = 0
    /\ win' = [ty |-> "STOP", ts |-> clock] /\ lastTs' = clock
    /\ op' = [a |-> "Stop", ts |-> clock]
    /\ UNCHANGED <<clock, ev, pending, bound, incl, about, ended, executed>>

(* the loop takes the first event within the bound; its time differs from the clock: the clock is moved, TIME_CHANGED announced *)
Announce ==
    /\ run /\ about = 0 /\ HasNext /\ step # 2
    /\ LET m == First(pending) IN
         /\ (ev[m].t # clock \/ step = 1)
         /\ about' = m /\ pending' = pending \ {m}
         /\ clock' = ev[m].t
         /\ win' = [ty |-> "TC", ts |-> ev[m].t] /\ lastTs' = ev[m].t
         /\ op' = [a |-> "TC", ts |-> ev[m].t]
    /\ UNCHANGED <<ev, run, bound, incl, ended, step, executed>>

Exec ==
    /\ run /\ step # 2
    /\ \/ about # 0
       \/ about = 0 /\ step = 0 /\ HasNext /\ ev[First(pending)].t = clock
    /\ LET m == IF about # 0 THEN about ELSE First(pending) IN
         /\ clock' = ev[m].t
         /\ pending' = pending \ {m}
         /\ executed' = Append(executed, m)
         /\ win' = IF ev[m].w THEN [ty |-> "WARMUP", ts |-> ev[m].t] ELSE NoWin
         /\ lastTs' = IF ev[m].w THEN ev[m].t ELSE lastTs
         /\ op' = [a |-> "Exec", id |-> m, clk |-> ev[m].t]
    /\ about' = 0 /\ step' = IF step = 1 THEN 2 ELSE step
    /\ UNCHANGED <<ev, run, bound, incl, ended>>

(* nothing (more) within the bound: the clock moves to the bound, then STOP is fired with the new time *)
SegEnd ==
    /\ run /\ step = 0 /\ about = 0 /\ ~HasNext
    /\ clock' = IF bound > clock THEN bound ELSE clock
    /\ run' = FALSE /\ ended' = (bound >= EndT)
    /\ LET ts == IF StampLag THEN clock ELSE clock' IN
         /\ win' = [ty |-> "STOP", ts |-> ts] /\ lastTs' = ts
         /\ op' = [a |-> "Stop", ts |-> ts]
    /\ UNCHANGED <<ev, pending, bound, incl, about, step, executed>>

Next == \/ \E by \in {"init", "handler", "listener"}, d \in Delays, p \in Prios : Sched(by, d, p)
        \/ \E e \in pending : Cancel(e)
        \/ \E b \in Bounds \cup {EndT}, inc \in BOOLEAN : StartSeg(b, inc)
        \/ StepSeg \/ StepEnd
        \/ Announce \/ Exec \/ SegEnd
Spec == Init /\ [][Next]_vars

-----------------------------------------------------------------------------
ClockMonotone == [][clock' >= clock]_vars
StampsMonotone == [][lastTs' >= lastTs]_vars
NothingInThePast == \A i \in pending : ev[i].t >= clock
(* a listener's "now" is the stamp it was handed *)
StampIsNow == win.ty # "none" => win.ts = clock
ExactlyOnce == \A i, j \in 1..Len(executed) : executed[i] = executed[j] => i = j
ExecutedInOrder == \A i \in 1..Len(executed) - 1 : ev[executed[i]].t <= ev[executed[i + 1]].t
NeverBeyondEnd == clock <= EndT
(* at quiescence between segments nothing within the bound just reached is left behind *)
StepIsOneEvent == [][(step = 2 /\ step' = 2) => executed' = executed]_vars
SegmentComplete == (~run /\ op.a = "Stop" /\ (ended \/ bound < EndT)) =>        \* (after a step() the bound is EndT and nothing has ended)
                   \A i \in pending : ~(ev[i].t < bound \/ (ev[i].t = bound /\ incl))
=============================================================================
