------------------------------- MODULE PubSub -------------------------------
(* Publish/subscribe of pydsol.core.pubsub.EventProducer.                     *)
(* subs[ty] is the ordered subscription list (empty = the type has no key).   *)
(* Firing snapshots the list ("subscribed at the moment of firing"); delivery *)
(* is a stack of frames so that listeners can re-enter the producer from      *)
(* inside notify (subscription changes and nested firing).  Every operation   *)
(* is enabled at top level (stack empty) or while the top frame's current     *)
(* listener is inside notify (frame.active).                                  *)
EXTENDS Integers, Sequences, FiniteSets

CONSTANTS Types, Listeners, MaxDepth, MaxFires, MaxReact, Stamps

VARIABLES subs,     \* [Types -> Seq(Listeners)] without duplicates
          stack,    \* Seq of frames [eid, ty, snap, idx, active, budget, ts]
          fired,    \* history: Seq of [ty, snap, ts]   (index = event id)
          log,      \* history: Seq of [l, eid]         deliveries in order
          op        \* last action
psvars == <<subs, stack, fired, log, op>>

NoStamp == -1
Range(s) == {s[i] : i \in 1..Len(s)}
Top == stack[Len(stack)]
CanAct == IF stack = <<>> THEN TRUE ELSE Top.active /\ Top.budget > 0
Spend == IF stack = <<>> THEN stack
         ELSE [stack EXCEPT ![Len(stack)].budget = @ - 1]
RemoveFrom(s, x) == SelectSeq(s, LAMBDA y : y # x)

Init == /\ subs = [t \in Types |-> <<>>]
        /\ stack = <<>> /\ fired = <<>> /\ log = <<>>
        /\ op = [a |-> "Init"]

Add(ty, li) ==
    /\ CanAct
    /\ subs' = [subs EXCEPT ![ty] = IF li \in Range(@) THEN @ ELSE Append(@, li)]
    /\ stack' = Spend
    /\ op' = [a |-> "Add", ty |-> ty, l |-> li]
    /\ UNCHANGED <<fired, log>>

Remove(ty, li) ==
    /\ CanAct
    /\ subs' = [subs EXCEPT ![ty] = RemoveFrom(@, li)]
    /\ stack' = Spend
    /\ op' = [a |-> "Remove", ty |-> ty, l |-> li]
    /\ UNCHANGED <<fired, log>>

(* remove_all_listeners: four argument forms; "none" stands for None *)
RemoveAll(ty, li) ==
    /\ CanAct
    /\ subs' = [t \in Types |->
                  IF ty = "none" \/ ty = t
                  THEN (IF li = 0 THEN <<>> ELSE RemoveFrom(subs[t], li))
                  ELSE subs[t]]
    /\ stack' = Spend
    /\ op' = [a |-> "RemoveAll", ty |-> ty, l |-> li]
    /\ UNCHANGED <<fired, log>>

HasListeners ==
    /\ CanAct
    /\ stack' = Spend
    /\ op' = [a |-> "HasListeners", ret |-> IF \E t \in Types : subs[t] # <<>> THEN 1 ELSE 0]
    /\ UNCHANGED <<subs, fired, log>>

Fire(ty, ts) ==
    /\ CanAct
    /\ Len(stack) < MaxDepth
    /\ Len(fired) < MaxFires
    /\ LET eid == Len(fired) + 1 IN
       /\ fired' = Append(fired, [ty |-> ty, snap |-> subs[ty], ts |-> ts])
       /\ stack' = Append(Spend, [eid |-> eid, ty |-> ty, snap |-> subs[ty], idx |-> 1,
                                  active |-> FALSE, budget |-> 0, ts |-> ts])
       /\ op' = [a |-> "Fire", ty |-> ty, eid |-> eid, ts |-> ts]
    /\ UNCHANGED <<subs, log>>

(* the producer calls notify of the next listener of the snapshot *)
Deliver ==
    /\ stack # <<>> /\ ~Top.active /\ Top.idx <= Len(Top.snap)
    /\ LET li == Top.snap[Top.idx] IN
       /\ log' = Append(log, [l |-> li, eid |-> Top.eid])
       /\ stack' = [stack EXCEPT ![Len(stack)] =
                       [@ EXCEPT !.idx = @ + 1, !.active = TRUE, !.budget = MaxReact]]
       /\ op' = [a |-> "Deliver", l |-> li, eid |-> Top.eid, ty |-> Top.ty, ts |-> Top.ts]
    /\ UNCHANGED <<subs, fired>>

(* notify returns *)
Return ==
    /\ stack # <<>> /\ Top.active
    /\ stack' = [stack EXCEPT ![Len(stack)].active = FALSE]
    /\ op' = [a |-> "Return", l |-> Top.snap[Top.idx - 1], eid |-> Top.eid]
    /\ UNCHANGED <<subs, fired, log>>

(* fire() returns to its caller *)
EndFire ==
    /\ stack # <<>> /\ ~Top.active /\ Top.idx > Len(Top.snap)
    /\ stack' = SubSeq(stack, 1, Len(stack) - 1)
    /\ op' = [a |-> "EndFire", eid |-> Top.eid]
    /\ UNCHANGED <<subs, fired, log>>

AddAny == \E t \in Types, li \in Listeners : Add(t, li)
RemoveAny == \E t \in Types, li \in Listeners : Remove(t, li)
RemoveAllAny == \E t \in Types \cup {"none"}, li \in Listeners \cup {0} : RemoveAll(t, li)
FireAny == \E t \in Types, ts \in Stamps \cup {NoStamp} : Fire(t, ts)

Next == AddAny \/ RemoveAny \/ RemoveAllAny \/ FireAny \/ HasListeners
        \/ Deliver \/ Return \/ EndFire

Spec == Init /\ [][Next]_psvars

-----------------------------------------------------------------------------
OnStack(e) == \E i \in 1..Len(stack) : stack[i].eid = e
FrameOf(e) == stack[CHOOSE i \in 1..Len(stack) : stack[i].eid = e]
DeliveredTo(e) == LET idxs == SelectSeq([i \in 1..Len(log) |-> i], LAMBDA i : log[i].eid = e)
                  IN [k \in 1..Len(idxs) |-> log[idxs[k]].l]

NoDuplicateSubscription ==
    \A t \in Types : \A i, j \in 1..Len(subs[t]) : subs[t][i] = subs[t][j] => i = j

(* exactly once, in subscription order, to those subscribed at the moment of firing *)
ExactlySnapshot ==
    \A e \in 1..Len(fired) :
        LET want == fired[e].snap  got == DeliveredTo(e) IN
        IF OnStack(e) THEN got = SubSeq(want, 1, FrameOf(e).idx - 1)
        ELSE got = want

(* nested fires complete before the outer delivery continues (LIFO) *)
StackNested == \A i, j \in 1..Len(stack) : i < j => stack[i].eid < stack[j].eid
=============================================================================
