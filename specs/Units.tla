-------------------------------- MODULE Units --------------------------------
(* Quantity arithmetic and unit tables of pydsol.core.units (C16, C17).        *)
(* UnitsData is GENERATED at check time from the live module: Types, SigTab,   *)
(* MulTab, DivTab, UnitRows, BaseUnits, AllNames.                              *)
(* A signature is a 9-tuple of exponents over (rad sr kg m s A K mol cd).      *)
EXTENDS Integers, Sequences, FiniteSets, UnitsData, TLC

Sig(t) == (CHOOSE r \in SigTab : r[1] = t)[2]
Plus(a, b) == [i \in 1..9 |-> a[i] + b[i]]
Minus(a, b) == [i \in 1..9 |-> a[i] - b[i]]
Zero == [i \in 1..9 |-> 0]

InMul(a, b) == \E r \in MulTab : r[1] = a /\ r[2] = b
MulRes(a, b) == (CHOOSE r \in MulTab : r[1] = a /\ r[2] = b)[3]
InDiv(a, b) == \E r \in DivTab : r[1] = a /\ r[2] = b
DivRes(a, b) == (CHOOSE r \in DivTab : r[1] = a /\ r[2] = b)[3]

(* the result of a * b and a / b: a named type from the table, else the generic SI value *)
Mul(a, b) == IF InMul(a, b) THEN [named |-> MulRes(a, b), sig |-> Sig(MulRes(a, b))]
             ELSE [named |-> "SI", sig |-> Plus(Sig(a), Sig(b))]
Div(a, b) == IF InDiv(a, b) THEN [named |-> DivRes(a, b), sig |-> Sig(DivRes(a, b))]
             ELSE [named |-> "SI", sig |-> Minus(Sig(a), Sig(b))]

-----------------------------------------------------------------------------
(* C16: table soundness, evaluated over every entry *)
TablesWellTyped == /\ \A r \in MulTab \cup DivTab : r[1] \in Types /\ r[2] \in Types /\ r[3] \in Types
                   /\ \A t \in Types : Cardinality({r \in SigTab : r[1] = t}) = 1
                   /\ BadSigKeys = {}
MulSound == \A r \in MulTab : Sig(r[3]) = Plus(Sig(r[1]), Sig(r[2]))
DivSound == \A r \in DivTab : Sig(r[3]) = Minus(Sig(r[1]), Sig(r[2]))
(* whichever way the result is produced, its signature is the sum / difference *)
DimensionallySound == \A a \in Types, b \in Types :
                         /\ Mul(a, b).sig = Plus(Sig(a), Sig(b))
                         /\ Div(a, b).sig = Minus(Sig(a), Sig(b))
(* a generic SI value converts to a named quantity exactly when the signatures match *)
Convertible(sig, t) == sig = Sig(t)

-----------------------------------------------------------------------------
(* C17: unit table well-formedness *)
RowsOf(t) == {r \in UnitRows : r.ty = t}
BaseUnitOf(t) == (CHOOSE b \in BaseUnits : b[1] = t)[2]
One == "0x1.0000000000000p+0"
BaseUnitHasFactorOne == \A t \in Types : \E r \in RowsOf(t) : r.u = BaseUnitOf(t) /\ r.f = One
FactorsAreNumbers == \A r \in UnitRows : r.fnum
EveryUnitDescribed == \A r \in UnitRows : r.desc
DisplayIsText == \A r \in UnitRows : r.dispstr
(* alias spellings: declared units of one type with the same display spelling share one factor *)
AliasesShareFactor == \A t \in Types : \A r1, r2 \in RowsOf(t) :
                         (r1.dispstr /\ r2.dispstr /\ r1.disp = r2.disp) => r1.f = r2.f
AdvertisedNamesExist == \A n \in AllNames : n.exists

-----------------------------------------------------------------------------
(* rows for execution: one state per ordered pair *)
VARIABLE row
Init == \E a \in Types, b \in Types :
          row = [a |-> a, b |-> b, mul |-> Mul(a, b), div |-> Div(a, b),
                 same |-> (a = b), sigeq |-> (Sig(a) = Sig(b))]
Next == UNCHANGED row
Spec == Init /\ [][Next]_row
=============================================================================
