-------------------------------- MODULE Stats --------------------------------
(* Counter, Tally, WeightedTally and TimestampWeightedTally of                 *)
(* pydsol.core.statistics as state machines over the DATA (the code keeps      *)
(* running accumulators: that is the refinement under test), with every public *)
(* getter as an exact value computed from the documented definitions:          *)
(*   [k |-> "nan"]                       undefined (never an exception)        *)
(*   [k |-> "rat", n |-> num, d |-> den] an exact rational (normalised, d > 0) *)
(*   [k |-> "sqrt", n, d, s]             s * sqrt(n/d), s in {-1, 0, 1}        *)
(* Kind selects the machine.  Values / weights / times are small naturals so   *)
(* that every intermediate stays below 2^31 (TLC integers).                    *)
EXTENDS Integers, Sequences, FiniteSets

CONSTANTS Kind,      \* "counter" | "tally" | "wtally" | "ttally"
          Vals,      \* observation values
          Weights,   \* weights (wtally), 0 allowed
          Times,     \* timestamps (ttally)
          MaxLen     \* observations + rejected attempts + initialisations per behaviour

VARIABLES obs,       \* accepted observations since the last initialize: values, <<w, x>> pairs or intervals <<dt, x>>
          tt,        \* ttally: [active, started, start, lastT, lastV]
          steps, op, g

stvars == <<obs, tt, steps, op, g>>

-----------------------------------------------------------------------------
(* exact rationals *)
RECURSIVE GCD(_, _)
GCD(a, b) == IF b = 0 THEN a ELSE GCD(b, a % b)
Abs(x) == IF x < 0 THEN -x ELSE x
Sgn(x) == IF x < 0 THEN -1 ELSE IF x > 0 THEN 1 ELSE 0
NaN == [k |-> "nan"]
Rat(n, d) == LET s == IF d < 0 THEN -1 ELSE 1
                 c == GCD(Abs(n), Abs(d))
             IN [k |-> "rat", n |-> (s * n) \div c, d |-> (s * d) \div c]
IntV(n) == Rat(n, 1)
Sqrt(n, d, s) == IF n = 0 \/ s = 0 THEN [k |-> "sqrt", n |-> 0, d |-> 1, s |-> 0]
                 ELSE LET c == GCD(Abs(n), Abs(d)) IN [k |-> "sqrt", n |-> Abs(n) \div c, d |-> Abs(d) \div c, s |-> s]

RECURSIVE SumSeq(_)
SumSeq(s) == IF s = <<>> THEN 0 ELSE Head(s) + SumSeq(Tail(s))
SumOver(s, F(_)) == SumSeq([i \in 1..Len(s) |-> F(s[i])])
Range(s) == {s[i] : i \in 1..Len(s)}
MinOf(S) == CHOOSE x \in S : \A y \in S : x <= y
MaxOf(S) == CHOOSE x \in S : \A y \in S : x >= y

-----------------------------------------------------------------------------
(* Tally getters over a sequence of integer observations *)
P1(x) == x
P2(x) == x * x
P3(x) == x * x * x
P4(x) == x * x * x * x
TallyGetters(o) ==
    LET n == Len(o)
        S1 == SumOver(o, P1)  S2 == SumOver(o, P2)  S3 == SumOver(o, P3)  S4 == SumOver(o, P4)
        N2 == n * S2 - S1 * S1
        N3 == n * n * S3 - 3 * n * S1 * S2 + 2 * S1 * S1 * S1
        N4 == n * n * n * S4 - 4 * n * n * S1 * S3 + 6 * n * S1 * S1 * S2 - 3 * S1 * S1 * S1 * S1
        varp == IF n > 0 THEN Rat(N2, n * n) ELSE NaN
        vars == IF n > 1 THEN Rat(N2, n * (n - 1)) ELSE NaN
        skp == IF n > 1 /\ N2 > 0 THEN Sqrt(N3 * N3, N2 * N2 * N2, Sgn(N3)) ELSE NaN
        sks == IF n > 2 /\ N2 > 0 THEN Sqrt(N3 * N3 * n * (n - 1), N2 * N2 * N2 * (n - 2) * (n - 2), Sgn(N3)) ELSE NaN
        kup == IF n > 2 /\ N2 > 0 THEN Rat(N4, N2 * N2) ELSE NaN
        kus == IF n > 3 /\ N2 > 0 THEN Rat(N4 * (n - 1), n * N2 * N2) ELSE NaN
        exp == IF n > 2 /\ N2 > 0 THEN Rat(N4 - 3 * N2 * N2, N2 * N2) ELSE NaN
        \* sample excess = (n-1)/((n-2)(n-3)) * ((n+1) * excess_pop + 6)
        exs == IF n > 3 /\ N2 > 0
               THEN Rat((n - 1) * ((n + 1) * (N4 - 3 * N2 * N2) + 6 * N2 * N2), (n - 2) * (n - 3) * N2 * N2)
               ELSE NaN
    IN [n |-> IntV(n), sum |-> IntV(S1),
        min |-> IF n > 0 THEN IntV(MinOf(Range(o))) ELSE NaN,
        max |-> IF n > 0 THEN IntV(MaxOf(Range(o))) ELSE NaN,
        mean |-> IF n > 0 THEN Rat(S1, n) ELSE NaN,
        variance |-> varp, variance_s |-> vars,
        stdev |-> IF n > 0 THEN Sqrt(N2, n * n, 1) ELSE NaN,
        stdev_s |-> IF n > 1 THEN Sqrt(N2, n * (n - 1), 1) ELSE NaN,
        skewness |-> skp, skewness_s |-> sks, kurtosis |-> kup, kurtosis_s |-> kus,
        excess_kurtosis |-> exp, excess_kurtosis_s |-> exs,
        \* confidence interval: mean -+ z * sqrt(variance_s / n), clipped to [min, max]; defined for n > 1
        ci_var_over_n |-> IF n > 1 THEN Rat(N2, n * n * (n - 1)) ELSE NaN]

CounterGetters(o) == [n |-> IntV(Len(o)), count |-> IntV(SumOver(o, P1))]

(* weighted getters over a sequence of <<w, x>> with integer w >= 0 *)
W1(p) == p[1]
WX(p) == p[1] * p[2]
WXX(p) == p[1] * p[2] * p[2]
WeightedGetters(o) ==
    LET n == Len(o)
        W == SumOver(o, W1)  A == SumOver(o, WX)  B == SumOver(o, WXX)
        kpos == Cardinality({i \in 1..n : o[i][1] > 0})
        xs == {o[i][2] : i \in 1..n}
        NV == W * B - A * A                      \* var_pop = NV / W^2
    IN [n |-> IntV(n),
        min |-> IF n > 0 THEN IntV(MinOf(xs)) ELSE NaN,
        max |-> IF n > 0 THEN IntV(MaxOf(xs)) ELSE NaN,
        weighted_sum |-> IntV(A),
        wtotal |-> IntV(W),            \* sum of weights (not a public getter; used to map weighted_sum through affine images)
        \* the statement is silent on the mean when no weight is positive: "nan_or_zero"
        weighted_mean |-> IF n = 0 THEN NaN ELSE IF W = 0 THEN [k |-> "nan_or_zero"] ELSE Rat(A, W),
        weighted_variance |-> IF n > 0 /\ W > 0 THEN Rat(NV, W * W) ELSE NaN,
        weighted_variance_s |-> IF n > 0 /\ W > 0 /\ kpos > 1 THEN Rat(NV * kpos, W * W * (kpos - 1)) ELSE NaN,
        weighted_stdev |-> IF n > 0 /\ W > 0 THEN Sqrt(NV, W * W, 1) ELSE NaN,
        weighted_stdev_s |-> IF n > 0 /\ W > 0 /\ kpos > 1 THEN Sqrt(NV * kpos, W * W * (kpos - 1), 1) ELSE NaN]

Getters == CASE Kind = "counter" -> CounterGetters(obs)
             [] Kind = "tally" -> TallyGetters(obs)
             [] OTHER -> WeightedGetters(obs)

-----------------------------------------------------------------------------
TT0 == [active |-> TRUE, started |-> FALSE, start |-> 0, lastT |-> 0, lastV |-> 0]

Init == /\ obs = <<>> /\ tt = TT0 /\ steps = 0
        /\ op = [a |-> "Init"]
        /\ g = Getters

More == steps < MaxLen

Initialize == /\ More /\ obs' = <<>> /\ tt' = TT0 /\ steps' = steps + 1
              /\ op' = [a |-> "Initialize", res |-> "ok"]

(* Counter / Tally *)
Register(x) == /\ More /\ Kind \in {"counter", "tally"}
               /\ obs' = Append(obs, x) /\ steps' = steps + 1 /\ tt' = tt
               /\ op' = [a |-> "Register", x |-> x, res |-> "ok"]

(* an invalid observation is rejected: an error is raised and nothing changes *)
Rejected(why) == /\ More /\ obs' = obs /\ tt' = tt /\ steps' = steps + 1
                 /\ op' = [a |-> "Rejected", why |-> why, res |-> "error"]

(* WeightedTally *)
RegisterW(w, x) == /\ More /\ Kind = "wtally"
                   /\ obs' = Append(obs, <<w, x>>) /\ steps' = steps + 1 /\ tt' = tt
                   /\ op' = [a |-> "RegisterW", w |-> w, x |-> x, res |-> "ok"]

(* TimestampWeightedTally: the previous value is weighted with the elapsed time *)
RegisterT(t, x) ==
    /\ More /\ Kind = "ttally"
    /\ IF tt.started /\ t < tt.lastT
       THEN /\ obs' = obs /\ tt' = tt
            /\ op' = [a |-> "RegisterT", t |-> t, x |-> x, res |-> "error"]
       ELSE /\ op' = [a |-> "RegisterT", t |-> t, x |-> x, res |-> "ok"]
            /\ IF tt.active /\ (~tt.started \/ t > tt.lastT)
               THEN /\ obs' = IF tt.started THEN Append(obs, <<t - tt.lastT, tt.lastV>>) ELSE obs
                    /\ tt' = [tt EXCEPT !.started = TRUE, !.start = IF tt.started THEN @ ELSE t,
                                        !.lastT = t, !.lastV = x]
               ELSE obs' = obs /\ tt' = [tt EXCEPT !.lastV = x]
    /\ steps' = steps + 1

EndObservations(t) ==
    /\ More /\ Kind = "ttally"
    /\ IF tt.started /\ t < tt.lastT
       THEN /\ obs' = obs /\ tt' = tt
            /\ op' = [a |-> "EndObservations", t |-> t, res |-> "error"]
       ELSE /\ op' = [a |-> "EndObservations", t |-> t, res |-> "ok"]
            /\ IF tt.active /\ (~tt.started \/ t > tt.lastT)
               THEN /\ obs' = IF tt.started THEN Append(obs, <<t - tt.lastT, tt.lastV>>) ELSE obs
                    /\ tt' = [tt EXCEPT !.started = TRUE, !.start = IF tt.started THEN @ ELSE t,
                                        !.lastT = t, !.active = FALSE]
               ELSE obs' = obs /\ tt' = [tt EXCEPT !.active = FALSE]
    /\ steps' = steps + 1

Step == \/ Initialize
        \/ \E x \in Vals : Register(x)
        \/ \E why \in (CASE Kind = "counter" -> {"float", "str"}
                         [] Kind = "tally" -> {"nan", "str"}
                         [] Kind = "wtally" -> {"nan_value", "nan_weight", "negative_weight", "str"}
                         [] OTHER -> {"nan_value", "nan_time", "str"}) : Rejected(why)
        \/ \E w \in Weights, x \in Vals : RegisterW(w, x)
        \/ \E t \in Times, x \in Vals : RegisterT(t, x)
        \/ \E t \in Times : EndObservations(t)
Next == Step /\ g' = Getters'
Spec == Init /\ [][Next]_stvars

-----------------------------------------------------------------------------
(* every query is total: each getter is a value or NaN (by construction of Getters); what the    *)
(* invariants add: count / extremes / variance signs are consistent, and the time-weighted mean  *)
(* is the time average over [start, lastT]                                                       *)
NonNegVariance == \A f \in DOMAIN g : (g[f].k = "rat" /\ f \in {"variance", "variance_s", "weighted_variance", "weighted_variance_s"})
                                        => g[f].n >= 0
TotalWeightIsSpan == Kind = "ttally" => SumOver(obs, W1) = (IF tt.started THEN tt.lastT - tt.start ELSE 0)
MeanWithinExtremes == (Kind = "tally" /\ Len(obs) > 0) =>
                         /\ g.mean.n >= g.min.n * g.mean.d /\ g.mean.n <= g.max.n * g.mean.d
RejectedChangesNothing == [][op'.res = "error" => (obs' = obs /\ tt' = tt /\ g' = g)]_stvars
=============================================================================
