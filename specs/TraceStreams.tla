---------------------------- MODULE TraceStreams ----------------------------
(* C->S for C12: recorded operations on real streams.  memo maps a generator   *)
(* coordinate <<gseed, pos>> to the uniform observed there (hex string): every *)
(* later observation of the same coordinate, on whichever stream, after        *)
(* whichever reset / restore, must be bit-identical.  Range membership and the *)
(* derivation of int / bool draws from the uniform are flags computed by the   *)
(* projection (exact integer arithmetic) and must be 1.                        *)
EXTENDS TraceBatch, FiniteSets
CONSTANTS Streams, Seeds, MaxPos, Slots, NoSeed
VARIABLES seed, orig, gs, tok, op, memo
S == INSTANCE Streams
TraceInit == BatchInit /\ S!Init /\ memo = <<>>

Coord(s) == <<gs[s][1], gs[s][2]>>
Known(c) == \E i \in 1..Len(memo) : memo[i].c = c
Lookup(c) == (CHOOSE i \in 1..Len(memo) : memo[i].c = c)

Step ==
  /\ Live /\ Consume
  /\ LET e == Ev IN
     \/ e.a = "New" /\ S!New(e.s, e.sd) /\ memo' = memo
     \/ /\ e.a = "Draw" /\ S!Draw(e.s, e.kind)
        /\ e.in_range = 1 /\ e.derived_ok = 1
        /\ LET c == Coord(e.s) IN
           IF Known(c) THEN memo[Lookup(c)].u = e.u /\ memo' = memo
           ELSE memo' = Append(memo, [c |-> c, u |-> e.u])
     \/ e.a = "SetSeed" /\ S!SetSeed(e.s, e.sd) /\ memo' = memo
     \/ e.a = "Reset" /\ S!Reset(e.s) /\ memo' = memo
     \/ e.a = "Save" /\ S!Save(e.s, e.k) /\ memo' = memo
     \/ e.a = "Restore" /\ S!Restore(e.s, e.k) /\ memo' = memo
     \/ e.a = "Query" /\ S!Query(e.s) /\ op'.seed = e.seed /\ op'.orig = e.orig /\ memo' = memo
TraceSpec == TraceInit /\ [][Step]_<<tid, l, seed, orig, gs, tok, op, memo>>
=============================================================================
