----------------------------- MODULE TracePubSub -----------------------------
(* C->S for C08: histories recorded from the real EventProducer with re-entrant *)
(* listeners must be behaviours of PubSub.tla, field by field.                  *)
EXTENDS TraceBatch, FiniteSets

CONSTANTS Types, Listeners, MaxDepth, MaxFires, MaxReact, Stamps
VARIABLES subs, stack, fired, log, op
PS == INSTANCE PubSub

TraceInit == BatchInit /\ PS!Init

Step ==
  /\ Live /\ Consume
  /\ LET ev == Ev IN
     \/ ev.a = "Add" /\ PS!Add(ev.ty, ev.l)
     \/ ev.a = "Remove" /\ PS!Remove(ev.ty, ev.l)
     \/ ev.a = "RemoveAll" /\ PS!RemoveAll(ev.ty, ev.l)
     \/ ev.a = "HasListeners" /\ PS!HasListeners /\ op'.ret = ev.ret
     \/ ev.a = "Fire" /\ PS!Fire(ev.ty, ev.ts) /\ op'.eid = ev.eid
     \/ ev.a = "Deliver" /\ PS!Deliver /\ op'.l = ev.l /\ op'.eid = ev.eid
                         /\ op'.ty = ev.ty /\ op'.ts = ev.ts
     \/ ev.a = "Return" /\ PS!Return /\ op'.l = ev.l /\ op'.eid = ev.eid
     \/ ev.a = "EndFire" /\ PS!EndFire /\ op'.eid = ev.eid

InvExactlySnapshot == PS!ExactlySnapshot
InvNoDup == PS!NoDuplicateSubscription
TraceSpec == TraceInit /\ [][Step]_<<tid, l, subs, stack, fired, log, op>>
=============================================================================
