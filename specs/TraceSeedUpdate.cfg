SPECIFICATION TraceSpec
CONSTRAINT Progress
POSTCONDITION Post
CHECK_DEADLOCK FALSE
