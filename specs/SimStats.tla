------------------------------ MODULE SimStats ------------------------------
(* Simulation statistics on top of DEVS.tla (C11): SimCounter, SimTally,       *)
(* SimWeightedTally and SimPersistent created in construct_model; every        *)
(* executed handler makes one observation of each (values are fixed functions  *)
(* of the event's creation rank, so that everything is exact in TLC).          *)
(* What each statistic must report is DERIVED from the executed sequence:      *)
(* only handler events executed after the warm-up event of this replication    *)
(* count (the warm-up reset precedes same-instant events of lower priority     *)
(* because the warm-up event has maximum priority); the persistent statistic   *)
(* is the time average from its first observation after warm-up, closed at the *)
(* replication end.  The getters are Stats.tla's exact rationals.              *)
EXTENDS DEVS, TLC

ST == INSTANCE Stats WITH Kind <- "tally", Vals <- {}, Weights <- {}, Times <- {}, MaxLen <- 0,
                          obs <- <<>>, tt <- [active |-> TRUE], steps <- 0, op <- [a |-> "x"], g <- [n |-> 0]

(* observation values of the handler with creation rank i (harness/drive_simstats.py: values_for) *)
VC(i) == 1 + (i % 3)
VT(i) == (i * 7) % 5
VW(i) == <<i % 3, (i * 5) % 4>>
VP(i) == i % 4

WarmPos == IF \E k \in 1..Len(executed) : ev[executed[k].id].kind = "W"
           THEN CHOOSE k \in 1..Len(executed) : ev[executed[k].id].kind = "W" ELSE 0
Counted == SelectSeq(SubSeq(executed, WarmPos + 1, Len(executed)), LAMBDA e : ev[e.id].kind = "H")

Map(s, F(_)) == [k \in 1..Len(s) |-> F(s[k])]
CId(e) == VC(e.id)
TId(e) == VT(e.id)
WId(e) == VW(e.id)

(* time-weighted fold: same rules as Stats.tla's RegisterT / EndObservations *)
RECURSIVE FoldT(_, _)
FoldT(s, st) ==     \* st = [iv (intervals <<dt, x>>), started, lastT, lastV]
    IF s = <<>> THEN st
    ELSE LET t == Head(s).clk  x == VP(Head(s).id) IN
         IF ~st.started THEN FoldT(Tail(s), [iv |-> st.iv, started |-> TRUE, lastT |-> t, lastV |-> x])
         ELSE IF t > st.lastT THEN FoldT(Tail(s), [iv |-> Append(st.iv, <<t - st.lastT, st.lastV>>), started |-> TRUE, lastT |-> t, lastV |-> x])
         ELSE FoldT(Tail(s), [st EXCEPT !.lastV = x])
PState == FoldT(Counted, [iv |-> <<>>, started |-> FALSE, lastT |-> 0, lastV |-> 0])
(* END_REPLICATION closes the persistent statistic at the end time *)
Closed == rs = "ENDED" /\ due = <<>>      \* END_REPLICATION is fired however the replication ended
PIntervals == LET p == PState IN
              IF Closed /\ p.started /\ EndT > p.lastT THEN Append(p.iv, <<EndT - p.lastT, p.lastV>>) ELSE p.iv

Expect == [C |-> ST!CounterGetters(Map(Counted, CId)),
           T |-> ST!TallyGetters(Map(Counted, TId)),
           W |-> ST!WeightedGetters(Map(Counted, WId)),
           P |-> ST!WeightedGetters(PIntervals)]

WarmId == IF \E i \in 1..Len(ev) : ev[i].kind = "W" THEN CHOOSE i \in 1..Len(ev) : ev[i].kind = "W" ELSE 0
(* used as an always-true INVARIANT in -simulate runs: prints what the statistics must report at every *)
(* quiescent state visited; the harness matches the lines to states by (executed, warm-up id, closed) *)
PrintExpect == IF Quiet /\ rs # "NOT_INITIALIZED"
               THEN PrintT(<<"EXPECT", executed, WarmId, Closed, Expect>>) ELSE TRUE

(* the persistent's total weight is the observed span *)
PersistentSpan == LET p == PState IN
    (Closed /\ p.started) => ST!SumOver(PIntervals, ST!W1) = EndT - (CHOOSE t \in {Counted[1].clk} : TRUE)
=============================================================================
