------------------------ MODULE TraceClockListeners ------------------------
(* C->S: recorded runs of the real simulator in which handlers AND           *)
(* TIME_CHANGED listeners schedule events must be behaviours of              *)
(* ClockListeners.tla: every scheduled event gets the time the specification *)
(* gives it (simulation time + delay), announcements and executions follow.  *)
EXTENDS TraceBatch
CONSTANTS EndT, MaxEv, Delays, Prios, StepMode, OldClockDuringTC
VARIABLES clock, ev, pending, ann, about, lastTC, op
CL == INSTANCE ClockListeners
clvars == <<clock, ev, pending, ann, about, lastTC, op>>
TraceInit == BatchInit /\ CL!Init
Step ==
  /\ Live /\ Consume
  /\ LET e == Ev IN
     \/ e.a = "Sched" /\ CL!Sched(e.by, e.d, e.p) /\ op'.t = e.t /\ op'.id = e.id
     \/ e.a = "TC" /\ CL!Announce /\ op'.ts = e.ts
     \/ e.a = "Exec" /\ CL!Exec /\ op'.id = e.id /\ op'.clk = e.clk
TraceSpec == TraceInit /\ [][Step]_<<tid, l, clvars>>
InvNothingInThePast == CL!NothingInThePast
InvAboutIsAnnounced == CL!AboutIsAnnounced
InvTCIsEventTime == CL!TCIsEventTime
PropClockMonotone == CL!ClockMonotone
PropTCMonotone == CL!TCMonotone
=============================================================================
