---- MODULE MC_EventList ----
EXTENDS EventList, TLC
CONSTANT MaxLevel
LevelBound == TLCGet("level") <= MaxLevel
====
