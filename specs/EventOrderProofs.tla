------------------------- MODULE EventOrderProofs -------------------------
(* TLAPS: Before is a strict total order on integer keys with distinct ids. *)
(* This is the only unbounded statement of C01 and it is cheap.             *)
EXTENDS EventOrder, TLAPS

Key == [t : Int, p : Int, id : Int]

THEOREM Irreflexive == \A a \in Key : ~Before(a, a)
  BY DEF Before, Key

THEOREM Transitive ==
    \A a, b, c \in Key : Before(a, b) /\ Before(b, c) => Before(a, c)
  BY DEF Before, Key

THEOREM Total ==
    \A a, b \in Key : a.id # b.id => Before(a, b) \/ Before(b, a)
  BY DEF Before, Key

THEOREM Asymmetric == \A a, b \in Key : Before(a, b) => ~Before(b, a)
  BY DEF Before, Key

THEOREM CmpAgrees ==
    \A a, b \in Key : /\ (Cmp(a, b) = -1) <=> Before(a, b)
                      /\ (Cmp(a, b) = 1) <=> Before(b, a)
                      /\ (Cmp(a, b) = 0) <=> (a.t = b.t /\ a.p = b.p /\ a.id = b.id)
  BY DEF Before, Cmp, Key
=============================================================================
