--------------------------- MODULE EventListHeap ---------------------------
(* Implementation-shaped model of pydsol.core.eventlist.EventListHeap: the   *)
(* heap ARRAY, with heapq's _siftdown / _siftup / heapify transcribed, and   *)
(* remove() as the code performs it.  Refines EventList (pending = elements  *)
(* of the array).  RemoveHeapifies = FALSE is the pinned tree's remove()     *)
(* (list.remove only): TLC then finds the out-of-order pop in a few steps.   *)
EXTENDS Integers, Sequences, FiniteSets, EventOrder

CONSTANTS MaxEv, Times, Prios, RemoveHeapifies

VARIABLES created, heap, op
hvars == <<created, heap, op>>

Ids == 1..Len(created)
Key(e) == [t |-> created[e].t, p |-> created[e].p, id |-> e]
Lt(a, b) == Before(Key(a), Key(b))      \* tuple comparison (time, -priority, id, _)
Range(s) == {s[i] : i \in 1..Len(s)}

(* heapq._siftdown(heap, startpos, pos) with 1-based positions *)
RECURSIVE SiftDown(_, _, _, _)
SiftDown(h, start, pos, item) ==
    IF pos > start /\ Lt(item, h[pos \div 2])
    THEN SiftDown([h EXCEPT ![pos] = h[pos \div 2]], start, pos \div 2, item)
    ELSE [h EXCEPT ![pos] = item]

(* heapq._siftup(heap, pos): bubble the smaller child up until a leaf, then siftdown *)
RECURSIVE SiftUpLoop(_, _, _, _)
SiftUpLoop(h, start, pos, item) ==
    LET n == Len(h)  child == 2 * pos  right == child + 1 IN
    IF child <= n
    THEN LET c == IF right <= n /\ ~Lt(h[child], h[right]) THEN right ELSE child
         IN SiftUpLoop([h EXCEPT ![pos] = h[c]], start, c, item)
    ELSE SiftDown([h EXCEPT ![pos] = item], start, pos, item)
SiftUp(h, pos) == SiftUpLoop(h, pos, pos, h[pos])

HeapPush(h, e) == SiftDown(Append(h, e), 1, Len(h) + 1, e)

(* heappop: returns <<item, newheap>> *)
HeapPop(h) ==
    LET last == h[Len(h)]  rest == SubSeq(h, 1, Len(h) - 1) IN
    IF rest = <<>> THEN <<last, <<>> >>
    ELSE <<rest[1], SiftUp([rest EXCEPT ![1] = last], 1)>>

RECURSIVE HeapifyFrom(_, _)
HeapifyFrom(h, i) == IF i < 1 THEN h ELSE HeapifyFrom(SiftUp(h, i), i - 1)
Heapify(h) == HeapifyFrom(h, Len(h) \div 2)

(* list.remove(x): delete the first equal element *)
RECURSIVE DelFirst(_, _)
DelFirst(s, e) == IF s = <<>> THEN <<>>
                  ELSE IF Head(s) = e THEN Tail(s) ELSE <<Head(s)>> \o DelFirst(Tail(s), e)

Init == created = <<>> /\ heap = <<>> /\ op = [a |-> "Init", e |-> 0, ret |-> 0]

Create(t, p) == /\ Len(created) < MaxEv
                /\ created' = Append(created, [t |-> t, p |-> p])
                /\ op' = [a |-> "Create", e |-> Len(created) + 1, ret |-> 0]
                /\ UNCHANGED heap

Add(e) == /\ e \in Ids /\ e \notin Range(heap)
          /\ heap' = HeapPush(heap, e)
          /\ op' = [a |-> "Add", e |-> e, ret |-> 0]
          /\ UNCHANGED created

Remove(e) == /\ e \in Ids
             /\ IF e \in Range(heap)
                THEN /\ heap' = (IF RemoveHeapifies THEN Heapify(DelFirst(heap, e)) ELSE DelFirst(heap, e))
                     /\ op' = [a |-> "Remove", e |-> e, ret |-> 1]
                ELSE /\ heap' = heap
                     /\ op' = [a |-> "Remove", e |-> e, ret |-> 0]
             /\ UNCHANGED created

PopFirst == /\ IF heap = <<>>
               THEN heap' = heap /\ op' = [a |-> "PopFirst", e |-> 0, ret |-> 0]
               ELSE LET r == HeapPop(heap) IN
                    heap' = r[2] /\ op' = [a |-> "PopFirst", e |-> 0, ret |-> r[1]]
            /\ UNCHANGED created

PeekFirst == /\ op' = [a |-> "PeekFirst", e |-> 0, ret |-> IF heap = <<>> THEN 0 ELSE heap[1]]
             /\ UNCHANGED <<created, heap>>

Contains(e) == /\ e \in Ids
               /\ op' = [a |-> "Contains", e |-> e, ret |-> IF e \in Range(heap) THEN 1 ELSE 0]
               /\ UNCHANGED <<created, heap>>

Size == op' = [a |-> "Size", e |-> 0, ret |-> Len(heap)] /\ UNCHANGED <<created, heap>>
IsEmpty == op' = [a |-> "IsEmpty", e |-> 0, ret |-> IF Len(heap) = 0 THEN 1 ELSE 0]
           /\ UNCHANGED <<created, heap>>
Clear == heap' = <<>> /\ op' = [a |-> "Clear", e |-> 0, ret |-> 0] /\ UNCHANGED created

CreateAny == \E t \in Times, p \in Prios : Create(t, p)
AddAny == \E e \in Ids : Add(e)
RemoveAny == \E e \in Ids : Remove(e)
ContainsAny == \E e \in Ids : Contains(e)
Next == \/ CreateAny
        \/ AddAny
        \/ RemoveAny
        \/ ContainsAny
        \/ PopFirst \/ PeekFirst \/ Size \/ IsEmpty \/ Clear

Spec == Init /\ [][Next]_hvars

HeapInv == \A i \in 2..Len(heap) : ~Lt(heap[i], heap[i \div 2])
NoDup == \A i, j \in 1..Len(heap) : heap[i] = heap[j] => i = j

EL == INSTANCE EventList WITH pending <- Range(heap)
Refines == EL!Spec
=============================================================================
