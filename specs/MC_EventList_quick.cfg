SPECIFICATION Spec
CONSTANTS
  MaxEv = 4
  Times = {0, 1, 2}
  Prios = {1, 5}
  MaxLevel = 9
CONSTRAINT LevelBound
INVARIANT TypeOK
INVARIANT RemoveKeepsOrder
INVARIANT DrainSorted
INVARIANT CmpTotal
INVARIANT CmpTransitive
PROPERTY HandsOutFirst
CHECK_DEADLOCK FALSE
