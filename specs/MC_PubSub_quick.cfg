SPECIFICATION Spec
CONSTANTS
  Types = {"T1", "T2"}
  Listeners = {1, 2, 3}
  MaxDepth = 2
  MaxFires = 3
  MaxReact = 1
  Stamps = {7}
  MaxLevel = 9
CONSTRAINT LevelBound
INVARIANT NoDuplicateSubscription
INVARIANT ExactlySnapshot
INVARIANT StackNested
CHECK_DEADLOCK FALSE
