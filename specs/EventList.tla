----------------------------- MODULE EventList -----------------------------
(* Abstract event list (EventListInterface): the pending SET of events and   *)
(* what each public call must answer.  Events are created separately from    *)
(* being added (an event may be created and never added, re-added after a    *)
(* pop, ...).  An event's id is its creation rank, as SimEvent's counter.    *)
EXTENDS Integers, Sequences, FiniteSets, EventOrder

CONSTANTS MaxEv,      \* at most this many events are created
          Times,      \* set of times (integers; concretised by the harness)
          Prios       \* set of priorities

VARIABLES created,    \* Seq of [t, p]   (index = id)
          pending,    \* SUBSET 1..Len(created)
          op          \* last call: [a |-> name, e |-> id or 0, ret |-> result]

elvars == <<created, pending, op>>

Ids == 1..Len(created)
Key(e) == [t |-> created[e].t, p |-> created[e].p, id |-> e]
BeforeE(a, b) == Before(Key(a), Key(b))
MinEv(S) == CHOOSE a \in S : \A b \in S : b = a \/ BeforeE(a, b)
FirstOrNone(S) == IF S = {} THEN 0 ELSE MinEv(S)

(* The order in which a pending set drains: a sequence. *)
RECURSIVE Drain(_)
Drain(S) == IF S = {} THEN <<>> ELSE LET m == MinEv(S) IN <<m>> \o Drain(S \ {m})

Init == created = <<>> /\ pending = {} /\ op = [a |-> "Init", e |-> 0, ret |-> 0]

Create(t, p) == /\ Len(created) < MaxEv
                /\ created' = Append(created, [t |-> t, p |-> p])
                /\ op' = [a |-> "Create", e |-> Len(created) + 1, ret |-> 0]
                /\ UNCHANGED pending

Add(e) == /\ e \in Ids /\ e \notin pending
          /\ pending' = pending \cup {e}
          /\ op' = [a |-> "Add", e |-> e, ret |-> 0]
          /\ UNCHANGED created

Remove(e) == /\ e \in Ids
             /\ pending' = pending \ {e}
             /\ op' = [a |-> "Remove", e |-> e, ret |-> IF e \in pending THEN 1 ELSE 0]
             /\ UNCHANGED created

PopFirst == /\ pending' = pending \ {FirstOrNone(pending)}
            /\ op' = [a |-> "PopFirst", e |-> 0, ret |-> FirstOrNone(pending)]
            /\ UNCHANGED created

PeekFirst == /\ op' = [a |-> "PeekFirst", e |-> 0, ret |-> FirstOrNone(pending)]
             /\ UNCHANGED <<created, pending>>

Contains(e) == /\ e \in Ids
               /\ op' = [a |-> "Contains", e |-> e, ret |-> IF e \in pending THEN 1 ELSE 0]
               /\ UNCHANGED <<created, pending>>

Size == /\ op' = [a |-> "Size", e |-> 0, ret |-> Cardinality(pending)]
        /\ UNCHANGED <<created, pending>>

IsEmpty == /\ op' = [a |-> "IsEmpty", e |-> 0, ret |-> IF pending = {} THEN 1 ELSE 0]
           /\ UNCHANGED <<created, pending>>

Clear == /\ pending' = {}
         /\ op' = [a |-> "Clear", e |-> 0, ret |-> 0]
         /\ UNCHANGED created

CreateAny == \E t \in Times, p \in Prios : Create(t, p)
AddAny == \E e \in Ids : Add(e)
RemoveAny == \E e \in Ids : Remove(e)
ContainsAny == \E e \in Ids : Contains(e)
Mutators == \/ CreateAny
            \/ AddAny
            \/ RemoveAny
            \/ PopFirst \/ Clear
Queries == \/ ContainsAny
           \/ PeekFirst \/ Size \/ IsEmpty
Next == Mutators \/ Queries

Spec == Init /\ [][Next]_elvars

----------------------------------------------------------------------------
TypeOK == /\ pending \subseteq Ids
          /\ \A e \in Ids : created[e].t \in Times /\ created[e].p \in Prios

(* Handing out: what pop/peek returned is pending-before and precedes all others. *)
HandsOutFirst ==
    [][ op'.a \in {"PopFirst", "PeekFirst"} =>
          IF pending = {} THEN op'.ret = 0
          ELSE /\ op'.ret \in pending
               /\ \A x \in pending \ {op'.ret} : BeforeE(op'.ret, x) ]_elvars

(* Removing any event leaves the drain order of the others as it was. *)
RECURSIVE Without(_, _)
Without(s, e) == IF s = <<>> THEN <<>>
                 ELSE IF Head(s) = e THEN Tail(s) ELSE <<Head(s)>> \o Without(Tail(s), e)
RemoveKeepsOrder == \A e \in pending : Drain(pending \ {e}) = Without(Drain(pending), e)

(* The drain sequence is sorted by Before and enumerates pending exactly once. *)
DrainSorted == LET d == Drain(pending) IN
    /\ Len(d) = Cardinality(pending)
    /\ \A i, j \in 1..Len(d) : i < j => BeforeE(d[i], d[j])

(* Comparison operators of events = strict total order agreeing with Before. *)
CmpTotal == \A a, b \in Ids :
    /\ (Cmp(Key(a), Key(b)) = 0) <=> (a = b)
    /\ (Cmp(Key(a), Key(b)) = -1) <=> BeforeE(a, b)
    /\ Cmp(Key(a), Key(b)) = -Cmp(Key(b), Key(a))
CmpTransitive == \A a, b, c \in Ids : BeforeE(a, b) /\ BeforeE(b, c) => BeforeE(a, c)
=============================================================================
