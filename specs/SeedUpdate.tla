----------------------------- MODULE SeedUpdate -----------------------------
(* Seed updates per replication (pydsol.core.streams: StreamSeedUpdater,       *)
(* SimpleStreamUpdater).  The new seed is a FIXED FUNCTION of                  *)
(*   (stream name, original seed, replication number)      fallback / simple   *)
(*   seed list [r]                                          listed streams      *)
(* and of nothing else (process, hash randomisation, listing order).  Which    *)
(* requests are refused is a total table, enumerated by TLC.                   *)
EXTENDS Integers, Sequences

Updaters == {"simple", "table", "chained", "custom", "shared"}
   \* simple: SimpleStreamUpdater;  table: StreamSeedUpdater with its default fallback;
   \* chained: StreamSeedUpdater whose fallback (set_fallback_stream_updater) is a second StreamSeedUpdater;
   \* custom: StreamSeedUpdater whose fallback is a user-written StreamUpdater;
   \* shared: ONE SimpleStreamUpdater object that has served other streams before (history must not matter)
Listing  == {"listed", "unlisted", "empty", "fb_listed"}
   \* listed: the table has a non-empty seed list for the stream;  empty: it has an EMPTY list (every r is beyond it);
   \* fb_listed: only the fallback's table lists it (chained only);  unlisted: nobody lists it
RClass   == {"negative", "first", "inside", "last", "beyond", "far", "illtyped"}
   \* replication number relative to a seed list of length 3: -1, 0, 1, 2, 3, 10**6, 1.5

(* outcome of update_seed *)
Outcome(u, l, rc) ==
    IF rc \in {"negative", "illtyped"} THEN "refused"
    ELSE IF u \in {"table", "chained", "custom"} /\ l = "empty" THEN "refused"
    ELSE IF u \in {"table", "chained", "custom"} /\ l = "listed" /\ rc \in {"beyond", "far"} THEN "refused"
    ELSE IF u \in {"table", "chained", "custom"} /\ l = "listed" THEN "from_list"
    ELSE IF u = "chained" /\ l = "fb_listed" /\ rc \in {"beyond", "far"} THEN "refused"
    ELSE IF u = "chained" /\ l = "fb_listed" THEN "from_list"      \* the installed fallback decides
    ELSE IF u = "custom" THEN "from_list"                            \* the user-written fallback decides (the harness knows its rule)
    ELSE "computed"           \* the simple updater, or the default fallback (of the table or of the chained fallback)

VARIABLE row
Init == \E u \in Updaters, l \in Listing, rc \in RClass :
          row = [u |-> u, l |-> l, rc |-> rc, out |-> Outcome(u, l, rc)]
Next == UNCHANGED row
Spec == Init /\ [][Next]_row
=============================================================================
