----------------------------- MODULE SeedUpdate -----------------------------
(* Seed updates per replication (pydsol.core.streams: StreamSeedUpdater,       *)
(* SimpleStreamUpdater).  The new seed is a FIXED FUNCTION of                  *)
(*   (stream name, original seed, replication number)      fallback / simple   *)
(*   seed list [r]                                          listed streams      *)
(* and of nothing else (process, hash randomisation, listing order).  Which    *)
(* requests are refused is a total table, enumerated by TLC.                   *)
EXTENDS Integers, Sequences

Updaters == {"simple", "table"}
Listing  == {"listed", "unlisted"}          \* does the table have a seed list for the stream
RClass   == {"negative", "first", "inside", "last", "beyond", "far", "illtyped"}
   \* replication number relative to a seed list of length 3: -1, 0, 1, 2, 3, 10**6, 1.5

(* outcome of update_seed *)
Outcome(u, l, rc) ==
    IF rc \in {"negative", "illtyped"} THEN "refused"
    ELSE IF u = "table" /\ l = "listed" /\ rc \in {"beyond", "far"} THEN "refused"
    ELSE IF u = "table" /\ l = "listed" THEN "from_list"
    ELSE "computed"           \* the simple updater, or the fallback of the table updater

VARIABLE row
Init == \E u \in Updaters, l \in Listing, rc \in RClass :
          row = [u |-> u, l |-> l, rc |-> rc, out |-> Outcome(u, l, rc)]
Next == UNCHANGED row
Spec == Init /\ [][Next]_row
=============================================================================
