------------------------------ MODULE TraceDEVS ------------------------------
(* C->S for the sequential simulator semantics: traces recorded from the real  *)
(* DEVSSimulator (commands with results, notifications, executed events with   *)
(* their scheduling requests and results, quiescent observations) must be      *)
(* behaviours of DEVS.tla.  SegmentEnd / StepEnd are internal (not logged) and *)
(* are taken silently; each changes mode, so they are bounded.                 *)
EXTENDS TraceBatch, FiniteSets

CONSTANTS MaxId, EndT, WarmT, Prios, RelDelays, AbsTimes, BadKinds, MaxOps, Strategy,
          Bounds, MaxInits, AllowFaults, StratOps, HStopOps, EndRepOps, MaxCmds, Cmds,
          PrintStats    \* BOOLEAN: print what the simulation statistics must report at quiescent observations (C11)
VARIABLES rs, rep, clock, ev, pending, bound, incl, mode, seg, executed, prog, initOps,
          ann, due, notif, nrep, premature, ncmd, strat, op,
          statmemo    \* digest of the final statistics of the first complete replication
D == INSTANCE SimStats

dvars == <<rs, rep, clock, ev, pending, bound, incl, mode, seg, executed, prog, initOps,
           ann, due, notif, nrep, premature, ncmd, strat, op>>

SeqOf(js) == [i \in 1..Len(js) |-> js[i]]
OpsOf(js) == [i \in 1..Len(js) |-> [k |-> js[i].k, a |-> js[i].a, p |-> js[i].p]]
SetOf(js) == {js[i] : i \in 1..Len(js)}

\* per-trace parameters travel in the first event of each trace
P == T[1]
TraceInit == BatchInit /\ D!Init /\ statmemo = ""

Step ==
  /\ Live /\ Consume
  /\ (Ev.a \notin {"Quiescent", "NewSimulator"} => statmemo' = statmemo)
  /\ LET e == Ev IN
     \/ e.a = "NewSimulator" /\ D!FreshSimulator /\ statmemo' = statmemo
     \/ e.a = "Initialize" /\ D!InitializeWith(OpsOf(e.ops)) /\ e.res = "ok"
     \/ e.a = "Start" /\ D!Start /\ op'.res = e.res
     \/ e.a = "RunUpTo" /\ D!RunUpTo(e.b, FALSE) /\ op'.res = e.res
     \/ e.a = "RunUpToIncl" /\ D!RunUpTo(e.b, TRUE) /\ op'.res = e.res
     \/ e.a = "Step" /\ D!Step /\ op'.res = e.res
     \/ e.a = "Stop" /\ D!Stop /\ op'.res = e.res
     \/ e.a = "EndReplication" /\ D!EndReplication /\ op'.res = e.res
     \/ e.a = "Cleanup" /\ D!Cleanup /\ e.res = "ok"
     \/ e.a = "Pause" /\ D!Pause
     \/ e.a = "Notif" /\ (D!Emit \/ D!AnnounceTC) /\ op'.ty = e.ty /\ (op'.ts = e.ts \/ op'.ts = D!AnyTs)
     \/ e.a = "Exec" /\ D!ExecNextWith([ops |-> OpsOf(e.ops), raise |-> e.raise])
                     /\ op'.id = e.id /\ op'.clk = e.clk /\ op'.kind = e.kind
                     /\ op'.res = SeqOf(e.res)
     \/ /\ e.a = "Quiescent"
        /\ D!Quiet
        /\ e.rs = rs /\ e.rep = rep /\ (rs # "NOT_INITIALIZED" => e.clock = clock)
        /\ (e.pending_known = 1 => SetOf(e.pending) = pending)
        /\ e.alive = (IF rs \in {"NOT_INITIALIZED", "ENDED"} THEN 0 ELSE 1)
        /\ ((PrintStats /\ e.want_stats = 1) => PrintT(<<"EXPECT", tid, l, D!Closed, D!Expect>>))
        /\ IF e.stats # "" /\ rs = "ENDED" /\ ~premature
           THEN IF statmemo = "" THEN statmemo' = e.stats
                ELSE e.stats = statmemo /\ statmemo' = statmemo
           ELSE statmemo' = statmemo
        /\ UNCHANGED dvars

Silent == /\ Live /\ (D!SegmentEnd \/ D!StepEnd \/ D!HandlerEndRep) /\ UNCHANGED <<tid, l, statmemo>>

TraceNext == Step \/ Silent
TraceSpec == TraceInit /\ [][TraceNext]_<<tid, l, dvars, statmemo>>

InvExactlyOnce == D!ExactlyOnce
InvClockIsEventTime == D!ClockIsEventTime
InvExecutedMonotone == D!ExecutedMonotone
InvNeverBeyondEnd == D!NeverBeyondEnd
InvAgreesWithReference == D!AgreesWithReference
InvStartReplFirstOnce == D!StartReplFirstOnce
InvStartStopAlternate == D!StartStopAlternate
InvEndReplLastOnce == D!EndReplLastOnce
InvWarmupOnce == D!WarmupOnce
InvTimeChangedMonotone == D!TimeChangedMonotone
InvEndedIsFinal == D!EndedIsFinal
=============================================================================
