------------------------------- MODULE IntDraw -------------------------------
(* next_int(lo, hi) = lo + floor((hi - lo + 1) * u) for a uniform u = k/Den,   *)
(* computed exactly.  TLC enumerates the table; the harness executes every row *)
(* on the real stream with a scripted generator delivering exactly k/Den.      *)
EXTENDS Integers
CONSTANTS Los, Widths, Den
VARIABLE row
Rows == [lo : Los, w : Widths, k : 0..(Den - 1)]
Res(r) == r.lo + ((r.w * r.k) \div Den)            \* w = hi - lo + 1
Init == \E r \in Rows : row = [lo |-> r.lo, hi |-> r.lo + r.w - 1, k |-> r.k, res |-> Res(r),
                               bool |-> IF 2 * r.k < Den THEN 1 ELSE 0]
Next == UNCHANGED row
Spec == Init /\ [][Next]_row
InRange == row.lo <= row.res /\ row.res <= row.hi
=============================================================================
