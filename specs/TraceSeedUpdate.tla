--------------------------- MODULE TraceSeedUpdate ---------------------------
(* C->S for C13: update events recorded in SEVERAL interpreter processes       *)
(* (different PYTHONHASHSEED) are concatenated into one trace; memo makes the  *)
(* computed seed a function of (name, original seed, r), memo2 makes the first *)
(* draws a function of the seed.  Refusals leave the stream unchanged.         *)
EXTENDS TraceBatch
VARIABLES memo, memo2
SU == INSTANCE SeedUpdate WITH row <- [u |-> "simple", l |-> "listed", rc |-> "first", out |-> "computed"]

TraceInit == BatchInit /\ memo = <<>> /\ memo2 = <<>>
Key(e) == <<e.name, e.orig, e.r>>
Known(k) == \E i \in 1..Len(memo) : memo[i].k = k
Val(k) == memo[CHOOSE i \in 1..Len(memo) : memo[i].k = k].v
Known2(s) == \E i \in 1..Len(memo2) : memo2[i].k = s
Val2(s) == memo2[CHOOSE i \in 1..Len(memo2) : memo2[i].k = s].v

BulkStep ==
  /\ Live /\ Consume /\ Ev.a = "Bulk"
  /\ LET k == <<"bulk", Ev.cfg, "">> IN
     IF Known(k) THEN Val(k) = Ev.seeds /\ memo' = memo
     ELSE memo' = Append(memo, [k |-> k, v |-> Ev.seeds])
  /\ memo2' = memo2

Step ==
  /\ Live /\ Consume /\ Ev.a = "Update"
  /\ LET e == Ev
         out == SU!Outcome(e.u, e.l, e.rc) IN
     /\ \/ /\ out = "refused"
           /\ e.res = "error" /\ e.seed_after = e.seed_before /\ e.draws_after = e.draws_before_peek
           /\ UNCHANGED <<memo, memo2>>
        \/ /\ out = "from_list"
           /\ e.res = "ok" /\ e.seed_after = e.want_from_list
           /\ memo' = memo
           /\ IF Known2(e.seed_after) THEN Val2(e.seed_after) = e.draws_after /\ memo2' = memo2
              ELSE memo2' = Append(memo2, [k |-> e.seed_after, v |-> e.draws_after])
        \/ /\ out = "computed"
           /\ e.res = "ok"
           /\ IF Known(Key(e)) THEN Val(Key(e)) = e.seed_after /\ memo' = memo
              ELSE memo' = Append(memo, [k |-> Key(e), v |-> e.seed_after])
           /\ IF Known2(e.seed_after) THEN Val2(e.seed_after) = e.draws_after /\ memo2' = memo2
              ELSE memo2' = Append(memo2, [k |-> e.seed_after, v |-> e.draws_after])
TraceSpec == TraceInit /\ [][Step \/ BulkStep]_<<tid, l, memo, memo2>>
=============================================================================
