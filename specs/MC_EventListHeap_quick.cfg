SPECIFICATION Spec
CONSTANTS
  MaxEv = 4
  Times = {0, 1, 2}
  Prios = {1, 5}
  RemoveHeapifies = TRUE
  MaxLevel = 9
CONSTRAINT LevelBound
INVARIANT HeapInv
INVARIANT NoDup
PROPERTY Refines
CHECK_DEADLOCK FALSE
