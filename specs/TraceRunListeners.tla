------------------------- MODULE TraceRunListeners -------------------------
(* C->S: recorded runs of the real simulator, cut into bounded segments, in  *)
(* which handlers and the listeners of START / TIME_CHANGED / WARMUP / STOP  *)
(* schedule and cancel events, must be behaviours of RunListeners.tla.       *)
EXTENDS TraceBatch
CONSTANTS EndT, WarmT, MaxEv, Delays, Prios, Bounds, StampLag
VARIABLES clock, ev, pending, run, bound, incl, win, about, lastTs, ended, step, executed, op
RL == INSTANCE RunListeners
rlvars == <<clock, ev, pending, run, bound, incl, win, about, lastTs, ended, step, executed, op>>
TraceInit == BatchInit /\ RL!Init
Step ==
  /\ Live /\ Consume
  /\ LET e == Ev IN
     \/ e.a = "Sched" /\ RL!Sched(e.by, e.d, e.p) /\ op'.t = e.t /\ op'.id = e.id
     \/ e.a = "Cancel" /\ RL!Cancel(e.id)
     \/ e.a = "Start" /\ RL!StartSeg(e.b, e.inc) /\ op'.ts = e.ts
     \/ e.a = "TC" /\ RL!Announce /\ op'.ts = e.ts
     \/ e.a = "Exec" /\ RL!Exec /\ op'.id = e.id /\ op'.clk = e.clk
     \/ e.a = "StepStart" /\ RL!StepSeg /\ op'.ts = e.ts
     \/ e.a = "Stop" /\ (RL!SegEnd \/ RL!StepEnd) /\ op'.ts = e.ts
TraceSpec == TraceInit /\ [][Step]_<<tid, l, rlvars>>
InvNothingInThePast == RL!NothingInThePast
InvStampIsNow == RL!StampIsNow
InvExactlyOnce == RL!ExactlyOnce
InvSegmentComplete == RL!SegmentComplete
PropClockMonotone == RL!ClockMonotone
PropStampsMonotone == RL!StampsMonotone
PropStepIsOneEvent == RL!StepIsOneEvent
=============================================================================
