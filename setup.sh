#!/bin/bash
# Offline setup: nothing is fetched or compiled; parse every specification and smoke-run TLC.
set -e
cd "$(dirname "$0")"
mkdir -p evidence replays
S=$(mktemp -d)
trap 'rm -rf "$S"' EXIT
cp specs/*.tla specs/*.cfg "$S"/ 2>/dev/null || true
# Units.tla extends UnitsData.tla, which every check generates from the live module
PYTHONPATH="/repo/src:$PWD" /venv/bin/python -W ignore -c "from harness import units_data; open('$S/UnitsData.tla','w').write(units_data.generate()[0])"
fail=0
for f in "$S"/*.tla; do
  b=$(basename "$f")
  case "$b" in Trace*|*Proofs*) continue;; esac
  if ! (cd "$S" && tla-sany "$b" > "$S/sany.out" 2>&1) || grep -q "Errors\|Fatal" "$S/sany.out"; then
    echo "SANY FAILED: $b"; tail -5 "$S/sany.out"; fail=1
  fi
done
/venv/bin/python -c "import sys; sys.path.insert(0,'/repo/src'); import pydsol.core" || fail=1
[ $fail = 0 ] && echo "setup ok"
exit $fail
